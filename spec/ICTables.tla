------------------------------ MODULE ICTables ------------------------------
(***************************************************************************)
(* Decision tables of icontract, transcribed: every cell is one state,     *)
(* TLC enumerates all of them, checks the obligations and prints the       *)
(* expected observation, which is replayed on the implementation.          *)
(*                                                                         *)
(*  Misuse   (C19): misuse kind x decorator x callable kind -> the moment  *)
(*                  (decorator creation, decoration, call) and the class   *)
(*                  of the error                                           *)
(*  Config   (C15): decorator x enabled argument x interpreter mode x      *)
(*                  ICONTRACT_SLOW -> is the contract applied at all       *)
(*  Ctor     (C14): constructor shapes of a class with invariants and of   *)
(*                  its subclass x number of constructor arguments ->      *)
(*                  does instantiation succeed, as for the bare classes    *)
(***************************************************************************)
EXTENDS Naturals, Sequences, FiniteSets, TLC

CONSTANTS Table,            \* "misuse" | "config" | "ctor" | "meta"
          SwNewWrapAlways   \* F12: the wrapper around object.__new__ forwards the constructor arguments blindly

VARIABLES cell
tvars == <<cell>>

-----------------------------------------------------------------------------
(* C19 *)
MisuseKinds == {"param_ARGS", "param_KWARGS", "kw_ARGS", "kw_KWARGS", "kw_ARGS_reentrant", "kw_KWARGS_reentrant",
                \* the reserved parameter declared keyword-only (def f(x=1, *, _KWARGS=2)) or as the variadic parameter itself
                \* (def f(x=1, *_ARGS) / def f(x=1, **_KWARGS))
                "param_ARGS_kwonly", "param_KWARGS_kwonly", "param_ARGS_variadic", "param_KWARGS_variadic",
                \* the reserved keyword passed to a function WITHOUT **kwargs whose precondition the call violates
                "kw_ARGS_pre_violated", "kw_KWARGS_pre_violated",
                "param_result", "param_OLD",
                \* the same reserved names declared keyword-only (with a default), positional-only, or passed through **kwargs
                "param_result_kwonly", "param_OLD_kwonly", "param_result_posonly", "param_OLD_posonly",
                "kw_result", "kw_OLD",
                \* ... on a function that also has a precondition which the call VIOLATES: the reserved name is reported
                \* (TypeError), not the violation
                "param_result_pre_violated", "param_OLD_pre_violated",
                \* an unnamed capture must have exactly one parameter, defaulted ones count: lambda x, y=2: .. / lambda x, *, y=2: ..
                "capture_noname_default", "capture_noname_kwdefault",
                \* falsy values that are no exception class / instance / function either
                "error_empty_str", "error_zero", "error_empty_list", "error_false",
                \* the reserved parameter on an OVERRIDE that merely inherits contracts (the metaclass creates its checker)
                "param_ARGS_inherited", "param_KWARGS_inherited",
                \* a coroutine-function condition of an invariant that also configures an error
                "inv_coroutine_error_class", "inv_coroutine_error_factory",
                "inv_extra_param", "inv_coroutine",
                \* (self, *args) / (self, **kwargs) / (*args) / (self, *, k): all take something besides self;
                \* (self, other=1) never receives anything but its default: by design no misuse
                "inv_varargs", "inv_varkw", "inv_only_varargs", "inv_kwonly_param", "inv_defaulted_param", "snapshot_no_post", "capture_noname_0", "capture_noname_2",
                "snapshot_dup", "error_int", "error_str", "error_nonexc_class", "error_callable_object"}
Decorators == {"require", "ensure", "invariant", "snapshot"}
Callables == {"function", "method", "static", "classm", "getter", "async_function", "async_method", "class"}

ErrorKinds == {"error_int", "error_str", "error_nonexc_class", "error_callable_object", "error_empty_str", "error_zero",
               "error_empty_list", "error_false"}
ReservedParamShapes == {"param_ARGS_kwonly", "param_KWARGS_kwonly", "param_ARGS_variadic", "param_KWARGS_variadic"}
ReservedPost == {"param_result", "param_OLD", "param_result_kwonly", "param_OLD_kwonly", "param_result_posonly",
                 "param_OLD_posonly", "kw_result", "kw_OLD"}
InvParamKinds == {"inv_extra_param", "inv_varargs", "inv_varkw", "inv_only_varargs", "inv_kwonly_param",
                  "inv_defaulted_param"}
\* on which decorator / callable a misuse can occur at all
MisuseApplies(m, d, c) ==
  CASE m \in {"param_ARGS", "param_KWARGS", "kw_ARGS", "kw_KWARGS"} \cup ReservedParamShapes -> d \in {"require", "ensure"} /\ c \notin {"class", "getter"}
    \* the reserved keyword is passed by a call the function's own condition makes (a re-entrant, unchecked call)
    [] m \in {"kw_ARGS_reentrant", "kw_KWARGS_reentrant"} -> d \in {"require", "ensure"} /\ c \in {"function", "method", "static"}
    [] m \in {"param_ARGS_inherited", "param_KWARGS_inherited"} -> d \in {"require", "ensure"} /\ c \in {"method", "async_method", "static", "classm"}
    [] m \in {"inv_coroutine_error_class", "inv_coroutine_error_factory"} -> d = "invariant" /\ c = "class"
    [] m \in {"param_result_pre_violated", "param_OLD_pre_violated"} -> d = "ensure" /\ c \notin {"class", "getter"}
    [] m \in {"kw_ARGS_pre_violated", "kw_KWARGS_pre_violated"} -> d \in {"require", "ensure"} /\ c \notin {"class", "getter"}
    [] m \in ReservedPost -> d \in {"require", "ensure"} /\ c \notin {"class", "getter"}
    [] m \in InvParamKinds \cup {"inv_coroutine"} -> d = "invariant" /\ c = "class"
    [] m \in {"snapshot_no_post", "capture_noname_0", "capture_noname_2", "snapshot_dup", "capture_noname_default",
               "capture_noname_kwdefault"} -> d = "snapshot" /\ c # "class"
    [] m \in ErrorKinds ->
         (d \in {"require", "ensure"} /\ c # "class") \/ (d = "invariant" /\ c = "class")

\* when and how it must be rejected ("never" = it is no misuse in this cell)
MisuseExpected(m, d, c) ==
  CASE m \in {"param_ARGS", "param_KWARGS", "param_ARGS_inherited", "param_KWARGS_inherited"} \cup ReservedParamShapes -> [moment |-> "decorate", exc |-> "TypeError"]
    [] m \in {"inv_coroutine_error_class", "inv_coroutine_error_factory"} -> [moment |-> "create", exc |-> "ValueError"]
    [] m \in {"kw_ARGS", "kw_KWARGS", "kw_ARGS_reentrant", "kw_KWARGS_reentrant"} -> [moment |-> "call", exc |-> "TypeError"]
    [] m \in {"param_result_pre_violated", "param_OLD_pre_violated", "kw_ARGS_pre_violated", "kw_KWARGS_pre_violated"} -> [moment |-> "call", exc |-> "TypeError"]
    [] m \in ReservedPost ->
         \* only a function with postconditions reserves these names
         IF d = "ensure" THEN [moment |-> "call", exc |-> "TypeError"] ELSE [moment |-> "never", exc |-> ""]
    [] m = "inv_defaulted_param" -> [moment |-> "never", exc |-> ""]
    [] m \in (InvParamKinds \ {"inv_defaulted_param"}) \cup {"inv_coroutine"} -> [moment |-> "create", exc |-> "ValueError"]
    [] m \in {"capture_noname_0", "capture_noname_2", "capture_noname_default", "capture_noname_kwdefault"} ->
         [moment |-> "create", exc |-> "ValueError"]
    [] m \in {"snapshot_no_post", "snapshot_dup"} -> [moment |-> "decorate", exc |-> "ValueError"]
    [] m \in ErrorKinds -> [moment |-> "create", exc |-> "ValueError"]

MisuseCells == {[t |-> "misuse", m |-> m, d |-> d, c |-> c] : m \in MisuseKinds, d \in Decorators, c \in Callables}
\* no misuse is ever silently accepted: the documented misuses of the property have a moment
NeverSilent ==
  (cell.t = "misuse" /\ MisuseApplies(cell.m, cell.d, cell.c)) =>
     (MisuseExpected(cell.m, cell.d, cell.c).moment = "never" <=>
         ((cell.m \in ReservedPost /\ cell.d = "require") \/ cell.m = "inv_defaulted_param"))

-----------------------------------------------------------------------------
(* C15 *)
Modes == {"normal", "O", "OO"}
EnvSlow == {"unset", "empty", "set"}
EnabledArgs == {"default", "true", "false", "slow"}
Debug(mode) == mode = "normal"                                   \* __debug__
Slow(mode, env) == Debug(mode) /\ env = "set"                     \* icontract.SLOW
Enabled(arg, mode, env) ==
  CASE arg = "default" -> Debug(mode) [] arg = "true" -> TRUE [] arg = "false" -> FALSE [] arg = "slow" -> Slow(mode, env)
\* callable kinds of the configuration table: besides functions, methods and classes, an object with __call__ and a
\* functools.partial (neither function nor method), and - for invariants - a plain subclass of a class that already
\* has (enabled) invariants and defines a method of its own
\* a contract written ABOVE @staticmethod / @classmethod is handed the descriptor object: what an enabled decorator makes
\* of it is not specified, a disabled one must hand the very object back like any other
DescriptorKinds == {"staticmethod_obj", "classmethod_obj"}
ConfigCells == {[t |-> "config", d |-> d, arg |-> a, mode |-> m, env |-> e, c |-> c] :
                  d \in Decorators, a \in EnabledArgs, m \in Modes, e \in EnvSlow,
                  c \in {"function", "method", "async_function", "class", "callable_object", "partial", "subclass"}
                        \cup DescriptorKinds}
ConfigApplies(d, c) == /\ (d = "invariant") = (c \in {"class", "subclass"})
                       /\ (c \in {"callable_object", "partial"} \cup DescriptorKinds => d \in {"require", "ensure"})
\* a contract that is explicitly enabled is applied in every mode; one that is explicitly disabled in none
ModeIndependent ==
  cell.t = "config" =>
     /\ (cell.arg = "true" => \A m \in Modes, e \in EnvSlow : Enabled("true", m, e))
     /\ (cell.arg = "false" => \A m \in Modes, e \in EnvSlow : ~Enabled("false", m, e))
     /\ (cell.mode # "normal" /\ cell.arg \in {"default", "slow"} => ~Enabled(cell.arg, cell.mode, cell.env))

-----------------------------------------------------------------------------
(* C14: instantiation of a class with invariants and of its subclass.       *)
\* constructor shapes: "none" (inherits), "init0" = __init__(self), "init1" = __init__(self, x),
\* "new1" = __new__(cls, x) (named-tuple like)
CtorShapes == {"none", "init0", "init1", "new1"}
\* style: the one argument is passed positionally (K(5)) or by keyword (K(x=5)); CPython's excess-argument rule of
\* object.__new__ / object.__init__ counts both alike, so the style must not matter
CtorCells == {[t |-> "ctor", root |-> r, sub |-> s, inst |-> i, nargs |-> n, subinv |-> si, style |-> st] :
                r \in CtorShapes, s \in CtorShapes \cup {"nosub"}, i \in {"root", "sub"}, n \in {0, 1}, si \in BOOLEAN,
                st \in {"pos", "kw"}}
CtorApplies(c) == (c.inst = "sub" => c.sub # "nosub") /\ (c.sub = "nosub" => ~c.subinv) /\ (c.style = "kw" => c.nargs = 1)

\* the constructor of Python visible on the instantiated class
InitOf(c) == IF c.inst = "sub" /\ c.sub \in {"init0", "init1"} THEN c.sub
             ELSE IF c.root \in {"init0", "init1"} THEN c.root ELSE "object"
NewOf(c)  == IF c.inst = "sub" /\ c.sub = "new1" THEN "new1" ELSE IF c.root = "new1" THEN "new1" ELSE "object"

\* CPython's rule for the excess arguments of object.__new__ / object.__init__
\*   object.__new__ rejects arguments iff __new__ is overridden or __init__ is not overridden
\*   object.__init__ rejects arguments iff __init__ is overridden or __new__ is not overridden
Accepts(newOverridden, initOverridden, newKind, initKind, n) ==
  LET newOK == IF newKind = "new1" THEN n = 1                                  \* user __new__(cls, x) then object.__new__(cls)
               ELSE (n = 0 \/ (~newOverridden /\ initOverridden))
      initOK == IF initKind = "init0" THEN n = 0
                ELSE IF initKind = "init1" THEN n = 1
                ELSE (n = 0 \/ (~initOverridden /\ newOverridden))              \* object.__init__ reached with n args
  IN newOK /\ initOK

BareAccepts(c) == Accepts(NewOf(c) # "object", InitOf(c) # "object", NewOf(c), InitOf(c), c.nargs)

\* What the library wraps when the root class gets invariants (the subclass inherits the wrappers): the constructor
\* __init__ if the class has one written in Python, otherwise __new__ (named tuples and the like).  The wrapper
\* around __new__ makes __new__ "overridden" in CPython's eyes; to stay transparent it must pass on the arguments
\* exactly when the bare class would have accepted them (SwNewWrapAlways: it forwards them blindly, F12).
ContractedAccepts(c) ==
  LET wrapsNew == c.root \in {"none", "new1"}
      userNew  == NewOf(c) = "new1"
      initOv   == InitOf(c) # "object"
      newOv    == userNew \/ wrapsNew
      n        == c.nargs
      newOK == IF userNew THEN n = 1
               ELSE IF wrapsNew /\ ~SwNewWrapAlways THEN (n = 0 \/ initOv)       \* as object.__new__ of the bare class
               ELSE (n = 0 \/ (~newOv /\ initOv))
      initOK == IF InitOf(c) = "init0" THEN n = 0
                ELSE IF InitOf(c) = "init1" THEN n = 1
                ELSE (n = 0 \/ (~initOv /\ newOv))
  IN newOK /\ initOK

Instantiable == (cell.t = "ctor" /\ CtorApplies(cell)) => (ContractedAccepts(cell) <=> BareAccepts(cell))

-----------------------------------------------------------------------------
(* C14: what a contracted callable shows to introspection is what the decorated object showed.                  *)
\* how the contracts get onto the callable; "foreign_*": an ordinary functools.wraps decorator sits between the
\* function and the contracts and changes the sync / async nature of what the contracts decorate
MetaHows  == {"require", "ensure", "snapshot_ensure", "require_ensure", "invariant", "dbc_invariant",
              "foreign_makes_async", "foreign_makes_sync"}
MetaKinds == {"function", "method", "async_function", "async_method", "abstract_method", "abstract_async_method",
              "static", "classm", "getter"}
MetaAttrs == {"name", "qualname", "doc", "module", "annotations", "signature", "abstract", "class_abstract",
              "coroutine", "wrapped"}
MetaCells == {[t |-> "meta", how |-> h, kind |-> k, attr |-> a] : h \in MetaHows, k \in MetaKinds, a \in MetaAttrs}
MetaApplies(c) ==
  /\ (c.how \in {"invariant", "dbc_invariant"} => c.kind \in {"method", "async_method", "abstract_method", "abstract_async_method", "getter"})
  /\ (c.how \in {"foreign_makes_async", "foreign_makes_sync"} => c.kind \in {"function", "method"})
  /\ (c.attr = "class_abstract" => c.kind \in {"abstract_method", "abstract_async_method"})
\* the property: every attribute is the one of the decorated object ("same"); there is no cell where it may differ
MetaExpected(c) == "same"
Transparent == (cell.t = "meta" /\ MetaApplies(cell)) => MetaExpected(cell) = "same"

\* C14 (cont.): unusual but legitimate CALL and CLASS-STATEMENT shapes behave as on the bare class
CallShapes == {"self_by_keyword",            \* Cls.m(self=inst)
               "posonly_self_kw_named_self", \* def update(self, /, **fields); obj.update(self=marker, a=1)
               "init_posonly_self_kw",       \* def __init__(self, /, **fields); Cls(self=marker)
               "class_keywords",             \* class T(Base, tag="x") with __init_subclass__(cls, tag="none")
               "class_keywords_grandchild",
               "builtin_list_base",          \* class Batch(list) with invariants: Batch([3, 1, 2])
               "builtin_dict_base"}
CallHows == {"invariant", "dbc_invariant", "dbc_require"}
CallCells == {[t |-> "calls", shape |-> sh, how |-> h] : sh \in CallShapes, h \in CallHows}
CallApplies(c) == c.shape \in {"builtin_list_base", "builtin_dict_base"} => c.how = "invariant"
CallExpected(c) == "same"
SameCalls == (cell.t = "calls" /\ CallApplies(cell)) => CallExpected(cell) = "same"

-----------------------------------------------------------------------------
Cells == CASE Table = "calls" -> {c \in CallCells : CallApplies(c)}
           [] Table = "meta" -> {c \in MetaCells : MetaApplies(c)}
           [] Table = "misuse" -> {c \in MisuseCells : MisuseApplies(c.m, c.d, c.c)}
           [] Table = "config" -> {c \in ConfigCells : ConfigApplies(c.d, c.c) /\ (c.c \in DescriptorKinds => ~Enabled(c.arg, c.mode, c.env))}
           [] Table = "ctor" -> {c \in CtorCells : CtorApplies(c)}
TInit == cell \in Cells
TNext == UNCHANGED tvars
TSpec == TInit /\ [][TNext]_tvars

Expected ==
  CASE cell.t = "calls" -> [cell |-> cell, moment |-> CallExpected(cell), exc |-> "", on |-> FALSE, ok |-> FALSE]
    [] cell.t = "meta" -> [cell |-> cell, moment |-> MetaExpected(cell), exc |-> "", on |-> FALSE, ok |-> FALSE]
    [] cell.t = "misuse" -> [cell |-> cell, moment |-> MisuseExpected(cell.m, cell.d, cell.c).moment,
                             exc |-> MisuseExpected(cell.m, cell.d, cell.c).exc, on |-> FALSE, ok |-> FALSE]
    [] cell.t = "config" -> [cell |-> cell, moment |-> "", exc |-> "", on |-> Enabled(cell.arg, cell.mode, cell.env), ok |-> FALSE]
    [] cell.t = "ctor" -> [cell |-> cell, moment |-> "", exc |-> "", on |-> FALSE, ok |-> BareAccepts(cell)]
=============================================================================
