------------------------------- MODULE ICProg -------------------------------
(* Constructors for program records (shared by the model-checking families  *)
(* and the trace specification).                                            *)
EXTENDS Naturals, Sequences

Op(op, f, o, a) == [op |-> op, f |-> f, o |-> o, a |-> a, when |-> 0]
CallOp(f, o, a) == Op("call", f, o, a)

\* a callable
Fn(kind, cls, isasync, chain, pre, snap, post, script, out, setst) ==
  [kind |-> kind, cls |-> cls, async |-> isasync, chain |-> chain, pre |-> pre, snap |-> snap, post |-> post,
   script |-> script, out |-> out, setst |-> setst, setattr |-> FALSE]

\* a contract: role, error form, lambda?, truth (indexed arg/state + 1), how the value is delivered, scripts
Con(role, err, lam, truth, rv, script, escript) ==
  [role |-> role, err |-> err, lam |-> lam, truth |-> truth, rv |-> rv, script |-> script, escript |-> escript,
   noold |-> FALSE]

Snp(val, rv, script) == [val |-> val, rv |-> rv, script |-> script]

Cls(inv, oncall, onset) == [inv |-> inv, oncall |-> oncall, onset |-> onset, repr |-> 0, base |-> 0]
Obj(cls, st0) == [cls |-> cls, st0 |-> st0]

NoFault == [at |-> 0, kind |-> "", n |-> 0, more |-> <<>>]

RetV(v) == [k |-> "ret", cls |-> "", v |-> v]
RaiseV(c, v) == [k |-> "raise", cls |-> c, v |-> v]
=============================================================================
