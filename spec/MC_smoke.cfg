SPECIFICATION Spec
CONSTANTS
  ProgSpace <- MCProgSpace
  SwReentryDiscards = FALSE
  SwHoldDuringBody = FALSE
  SwInitNested = FALSE
  SwShareSet = FALSE
  SwFutureNotAwaited = FALSE
  AsyncSched = FALSE
INVARIANT PrintDone
CHECK_DEADLOCK FALSE
