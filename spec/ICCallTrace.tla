----------------------------- MODULE ICCallTrace -----------------------------
(* Trace validation: recorded executions of the real icontract (one JSON     *)
(* record per line: program + event log) are replayed through the machine   *)
(* of ICCall.  With the program, the oracle and the schedule taken from the *)
(* trace the machine is deterministic, so validation is linear: the next    *)
(* recorded event must be the event the machine emits.  The verdict is      *)
(* total: a trace that cannot be matched ends with a diagnosis record       *)
(* (expected event, recorded event, context) instead of a silent deadlock.  *)
(* Many traces are validated in one TLC run (-workers 1).                   *)
EXTENDS ICCallProps, Json, IOUtils

\* the file is read once (TraceInit) and kept in a TLC register; -workers 1
Traces == TLCGet(42)
NT == Len(Traces)

VARIABLES tid,      \* index of the trace being validated
          l,        \* position of the next event to match
          verdict   \* "open" while matching; otherwise the final verdict of this trace

tvars == <<vars, tid, l, verdict>>

Tr == Traces[tid].log

\* recorded events are arrays <<e, t, id, o, a, v, cls, old, res, ip>>; ip = <<-1>> leaves the view unconstrained
\* A recorded field may be the wildcard (-7, or <<-7>> for the OLD values): passively recorded executions of the
\* repository's own tests do not know which abstract objects a condition received.
W == 0 - 7
Match(m, r) ==
  /\ m.e = r[1] /\ m.t = r[2] /\ m.id = r[3]
  /\ (r[4] = W \/ m.o = r[4]) /\ (r[5] = W \/ m.a = r[5])
  /\ (r[6] = W \/ m.v = r[6]) /\ m.cls = r[7]
  /\ (r[8] = <<W>> \/ m.old = r[8]) /\ (r[9] = W \/ m.res = r[9])
  /\ (r[10] = <<-1>> \/ m.ip = {r[10][n] : n \in DOMAIN r[10]})

\* context of a mismatch, for attribution
ReentCtx(t) ==
  \E n \in DOMAIN stack[t] : \E m \in DOMAIN stack[t] :
     /\ n < m /\ stack[t][n].k \in {"chk", "inv", "init", "new"} /\ stack[t][m].k = stack[t][n].k
     /\ (IF stack[t][n].k = "chk" THEN stack[t][n].f = stack[t][m].f ELSE stack[t][n].o = stack[t][m].o)
ConcCtx(t) == \E u \in Tasks \ {t} : status[u] \in {"ready", "susp"}
\* a checked call made while another checked call of the same task is in progress (not necessarily of the same
\* function or object)
NestedCtx(t) == \E n \in DOMAIN stack[t] : \E m \in DOMAIN stack[t] :
                  n < m /\ stack[t][n].k \in {"chk", "inv", "init", "new"} /\ stack[t][m].k \in {"chk", "inv", "init", "new"}
                  /\ (stack[t][n].f # stack[t][m].f \/ stack[t][n].o # stack[t][m].o)

Diag(t, m, r) ==
  ToJson([tid |-> tid, pid |-> Traces[tid].pid, at |-> l, verdict |-> "reject",
          exp |-> <<m.e, m.t, m.id, m.o, m.a, m.v, m.cls, m.old, m.res, m.ip>>, ph |-> m.ph, sk |-> m.sk,
          act |-> r, reent |-> ReentCtx(t), conc |-> ConcCtx(t), nested |-> NestedCtx(t), depth |-> Len(stack[t])])

Ok == ToJson([tid |-> tid, pid |-> Traces[tid].pid, at |-> l, verdict |-> "ok"])

TraceInit ==
  /\ TLCSet(42, ndJsonDeserialize(IOEnv.TRACE_FILE))
  /\ NT > 0
  /\ tid = 1 /\ l = 1 /\ verdict = "open"
  /\ InitOf(Traces[1].prog)

CanStep(t)  == t \in Tasks /\ status[t] = "ready" /\ busy \in {0, t}
CanSched(t) == t \in Tasks /\ status[t] = "susp" /\ busy = 0

\* one step of the machine, synchronised with the trace
Advance ==
  /\ verdict = "open" /\ l <= Len(Tr)
  /\ LET r == Tr[l]
         t == IF busy # 0 THEN busy ELSE r[2]
     IN
     IF r[1] = "abort" \/ ~(CanStep(t) \/ CanSched(t))
       THEN /\ verdict' = ToJson([tid |-> tid, pid |-> Traces[tid].pid, at |-> l, verdict |-> "reject",
                                  exp |-> <<"none", t, 0, 0, 0, 0, "", <<>>, 0, {}>>, ph |-> "", sk |-> FALSE, act |-> r,
                                  reent |-> FALSE, conc |-> FALSE, nested |-> FALSE, depth |-> 0])
            /\ UNCHANGED <<vars, tid, l>>
       ELSE /\ (Step(t) \/ Sched(t))
            /\ IF emit'.e = "silent" THEN l' = l /\ verdict' = "open"
               ELSE IF Match(emit', r) THEN l' = l + 1 /\ verdict' = "open"
               ELSE l' = l /\ verdict' = Diag(t, emit', r)
            /\ tid' = tid

\* the recorded trace is exhausted: the machine must be finished too (after its remaining silent steps)
AtEnd ==
  /\ verdict = "open" /\ l > Len(Tr)
  /\ IF AllDone
       THEN verdict' = Ok /\ UNCHANGED <<vars, tid, l>>
       ELSE IF busy # 0 /\ CanStep(busy)
         THEN /\ Step(busy)
              /\ IF emit'.e = "silent" THEN verdict' = "open"
                 ELSE verdict' = Diag(busy, emit', <<"eot", 0, 0, 0, 0, 0, "", <<>>, 0, <<-1>>>>)
              /\ UNCHANGED <<tid, l>>
         ELSE /\ verdict' = ToJson([tid |-> tid, pid |-> Traces[tid].pid, at |-> l, verdict |-> "truncated"])
              /\ UNCHANGED <<vars, tid, l>>

\* report and move on to the next trace
Finish ==
  /\ verdict # "open"
  /\ PrintT(verdict)
  /\ tid < NT
  /\ tid' = tid + 1 /\ l' = 1 /\ verdict' = "open"
  /\ InitNext(Traces[tid + 1].prog)

TraceNext == Advance \/ AtEnd \/ Finish
TraceSpec == TraceInit /\ [][TraceNext]_tvars

\* the last trace's verdict is printed by this constraint (Finish is not enabled for it)
LastReported == (tid = NT /\ verdict # "open") => PrintT(verdict)
=============================================================================
