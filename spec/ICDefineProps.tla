---------------------------- MODULE ICDefineProps ----------------------------
(* The reference semantics of contract inheritance, computed from the        *)
(* DECLARATIONS of a history only (never from the heap), and the listed     *)
(* properties as invariants / action properties of ICDefine.                *)
EXTENDS ICDefine

Stmt(k) == hist.cls[k]
Defines(k, name) == \E i \in DOMAIN Stmt(k).members : Stmt(k).members[i].name = name
MemberDecl(k, name) == Stmt(k).members[CHOOSE i \in DOMAIN Stmt(k).members : Stmt(k).members[i].name = name]

RECURSIVE Sel(_, _, _)
Sel(decos, i, what) ==
  IF i > Len(decos) THEN <<>>
  ELSE (IF decos[i].d = what THEN <<decos[i].c>> ELSE <<>>) \o Sel(decos, i + 1, what)
OwnPre(k, name)  == Sel(MemberDecl(k, name).decos, 1, "require")
OwnPost(k, name) == Sel(MemberDecl(k, name).decos, 1, "ensure")
OwnSnap(k, name) == Sel(MemberDecl(k, name).decos, 1, "snapshot")

\* the class of k's MRO that provides name (0 = none)
RECURSIVE Provider(_, _, _)
Provider(mro, i, name) == IF i > Len(mro) THEN 0 ELSE IF Defines(mro[i], name) THEN mro[i] ELSE Provider(mro, i + 1, name)
ProviderOf(k, name) == Provider(Stmt(k).mro, 1, name)

IsCtor(name) == name \in {"__init__", "__new__"}
Absent == [kind |-> "absent", groups |-> <<>>]
True_  == [kind |-> "true", groups |-> <<>>]

RECURSIVE RefPre(_, _), RefPreAt(_, _), InhPre(_, _, _)
\* effective precondition of member name as seen on class k
\* (a member declared with kind "none" is an accessor which the re-declared property does not have: it shadows the bases')
NoSuch(p, name) == p = 0 \/ MemberDecl(p, name).kind = "none"
RefPre(k, name) == LET p == ProviderOf(k, name) IN IF NoSuch(p, name) THEN Absent ELSE RefPreAt(p, name)
\* ... of the definition of name in class k (k defines name)
\* (the reference lists are duplicate-free: a contract that reaches a class along several paths of a diamond is one
\*  contract - listed, and evaluated, once)
InhPre(bases, name, acc) ==
  IF bases = <<>> THEN acc
  ELSE LET r == RefPre(Head(bases), name) IN
       InhPre(Tail(bases), name,
              [has |-> acc.has \/ r.kind # "absent", free |-> acc.free \/ r.kind = "true", groups |-> Dedup(acc.groups \o r.groups)])
RefPreAt(k, name) ==
  LET own == OwnPre(k, name)
      inh == IF IsCtor(name) THEN [has |-> FALSE, free |-> FALSE, groups |-> <<>>]
             ELSE InhPre(Stmt(k).bases, name, [has |-> FALSE, free |-> FALSE, groups |-> <<>>])
  IN IF ~inh.has THEN (IF own = <<>> THEN True_ ELSE [kind |-> "dnf", groups |-> <<own>>])
     ELSE IF inh.free THEN True_                         \* an ancestor accepts every call
     \* (an own group that lists the very contracts of an inherited group - shared decorator objects - is that group)
     ELSE [kind |-> "dnf", groups |-> Dedup(inh.groups \o (IF own = <<>> THEN <<>> ELSE <<own>>))]

RECURSIVE RefPost(_, _), RefPostAt(_, _), InhPost(_, _)
RefPost(k, name) == LET p == ProviderOf(k, name) IN IF NoSuch(p, name) THEN <<>> ELSE RefPostAt(p, name)
InhPost(bases, name) == IF bases = <<>> THEN <<>> ELSE Dedup(RefPost(Head(bases), name) \o InhPost(Tail(bases), name))
RefPostAt(k, name) == Dedup((IF IsCtor(name) THEN <<>> ELSE InhPost(Stmt(k).bases, name)) \o OwnPost(k, name))

RECURSIVE RefSnap(_, _), RefSnapAt(_, _), InhSnap(_, _)
RefSnap(k, name) == LET p == ProviderOf(k, name) IN IF NoSuch(p, name) THEN <<>> ELSE RefSnapAt(p, name)
InhSnap(bases, name) == IF bases = <<>> THEN <<>> ELSE Dedup(RefSnap(Head(bases), name) \o InhSnap(Tail(bases), name))
RefSnapAt(k, name) == (IF IsCtor(name) THEN <<>> ELSE InhSnap(Stmt(k).bases, name)) \o OwnSnap(k, name)

RECURSIVE RefInv(_, _), InhInv(_, _)
OwnInv(k, sel) == LET ds == Stmt(k).invs IN
  LET RECURSIVE Pick(_)
      Pick(i) == IF i > Len(ds) THEN <<>>
                 ELSE (IF sel = "inv" \/ (sel = "oncall" /\ CON(ds[i].c).on \in {"CALL", "ALL"})
                           \/ (sel = "onset" /\ CON(ds[i].c).on \in {"SETATTR", "ALL"}) THEN <<ds[i].c>> ELSE <<>>) \o Pick(i + 1)
  IN Pick(1)
InhInv(bases, sel) == IF bases = <<>> THEN <<>> ELSE Dedup(RefInv(Head(bases), sel) \o InhInv(Tail(bases), sel))
\* A class created through the metaclass accumulates the invariants visible on each of its bases.  A PLAIN class (no
\* metaclass; the documentation leaves inheritance undefined there, the families keep to single inheritance and do not
\* decorate a plain subclass of a decorated plain class) shows its own list if it was decorated, else what plain
\* attribute lookup finds on its base.
RefInv(k, sel) ==
  IF Stmt(k).dbc THEN InhInv(Stmt(k).bases, sel) \o OwnInv(k, sel)
  ELSE IF Stmt(k).invs # <<>> \/ Stmt(k).bases = <<>> THEN OwnInv(k, sel)
  ELSE RefInv(Head(Stmt(k).bases), sel)

\* a decorator stack is invalid if a snapshot is not preceded (below it) by a postcondition, or repeats a name
BadStack(decos) ==
  \E i \in DOMAIN decos : decos[i].d = "snapshot" /\
     \/ ~\E j \in 1..(i-1) : decos[j].d = "ensure"
     \/ \E j \in 1..(i-1) : decos[j].d = "snapshot" /\ CON(decos[j].c).name = CON(decos[i].c).name

\* the class statement must be rejected exactly in these cases
RefRejected(k) ==
  \/ \E i \in DOMAIN Stmt(k).members :
       LET name == Stmt(k).members[i].name IN
       /\ ~IsCtor(name) /\ Stmt(k).dbc
       /\ \/ (OwnPre(k, name) # <<>> /\ LET inh == InhPre(Stmt(k).bases, name, [has |-> FALSE, free |-> FALSE, groups |-> <<>>])
                                        IN inh.has /\ inh.groups = <<>>)
          \/ DupSnap(lst, RefSnapAt(k, name))
  \/ \E i \in DOMAIN Stmt(k).members : BadStack(Stmt(k).members[i].decos)

Settled == pc \in {"next", "done", "posthoc"}
Created == {k \in DOMAIN cl : cl[k].ok /\ (k < step \/ Settled)}

(* ---- C04 / C18: what introspection (and hence the wrappers) see equals the reference ---- *)
NoPostHocYet == pc # "posthoc" /\ ~(pc = "done" /\ hist.posthoc # <<>>)
EffPreEqRef == NoPostHocYet =>
  \A k \in Created : \A name \in Names :
     LET v == MemberView(cl, fo, lst, k, name) r == RefPre(k, name) IN
       (r.kind = "absent" => v.kind = "none") /\ (r.kind # "absent" => v.pre = r.groups)
EffPostEqRef == NoPostHocYet => \A k \in Created : \A name \in Names : MemberView(cl, fo, lst, k, name).post = RefPost(k, name)
EffSnapEqRef == NoPostHocYet => \A k \in Created : \A name \in Names : MemberView(cl, fo, lst, k, name).snap = RefSnap(k, name)
EffInvEqRef  == NoPostHocYet => \A k \in Created : \A sel \in {"inv", "oncall", "onset"} : EffInvOf(cl, lst, k, sel) = RefInv(k, sel)
RejectedExactly == \A k \in DOMAIN cl : (k < step \/ Settled) => (cl[k].ok <=> ~RefRejected(k))

(* ---- C17: a definition step never changes what an earlier class shows ---- *)
\* (a post-hoc decoration of a member of class K may only change K and the classes that inherit the member from K)
InMro(k, j) == \E i \in DOMAIN cl[j].mro : cl[j].mro[i] = k
NonInterference ==
  [][IF pc = "posthoc" /\ di <= Len(hist.posthoc)
       THEN \A j \in DOMAIN cl : (cl[j].ok /\ ~InMro(hist.posthoc[di].k, j)) => ClassView(cl', fo', lst', j) = ClassView(cl, fo, lst, j)
       ELSE \A k \in DOMAIN cl : (k < step /\ cl[k].ok) => ClassView(cl', fo', lst', k) = ClassView(cl, fo, lst, k)]_dvars
\* no list object can be reached for appending from two different classes
NoSharedInvList ==
  Settled => \A k1, k2 \in Created : \A sel \in {"inv", "oncall", "onset"} :
               \* (a plain subclass of a plain class sees the very list of its base through attribute lookup: the
               \*  documentation leaves that case undefined; every class created through the metaclass owns its lists)
               \* a class created through the metaclass that does not own a list (its base was decorated only after
               \* the class had been created) reads the base's list through inheritance; it gets copies of its own
               \* the moment it is decorated itself (ApplyInvDeco), so only OWNED lists count here
               (k1 # k2 /\ cl[k1][sel] # 0 /\ (Stmt(k1).dbc \/ Stmt(k2).dbc)) => cl[k1][sel] # cl[k2][sel]

(* ---- C14: a stack of contract decorators has exactly one checker; the original stays reachable ---- *)
DeclForeign(k, name) == Len(Sel(MemberDecl(k, name).decos, 1, "foreign")) + Len(Sel(MemberDecl(k, name).decos, 1, "foreign_bare"))
SingleChecker ==
  \A k \in Created : \A name \in DOMAIN cl[k].d :
     LET f == cl[k].d[name].f IN f # 0 => (CountCheckers(fo, f) <= 1 /\ fo[Bottom(fo, f)].k = "plain")
\* no decorator of the stack is lost: every foreign wrapper the source wrote is still on the chain
ForeignKept ==
  \A k \in Created : \A name \in Names :
     (Defines(k, name) /\ cl[k].d[name].f # 0) => CountForeign(fo, cl[k].d[name].f) = DeclForeign(k, name)

(* ---- C18: every class created through the metaclass is announced exactly once ---- *)
RegisteredOnce ==
  Settled => \A k \in DOMAIN cl : (cl[k].ok /\ k <= step) =>
     Cardinality({i \in DOMAIN regd : regd[i] = k}) = (IF Stmt(k).dbc /\ Stmt(k).mod # "icontract._metaclass" THEN 1 ELSE 0)
=============================================================================
