------------------------------ MODULE ICDefine ------------------------------
(***************************************************************************)
(* Definition-time machine of icontract: what the decorators (require,     *)
(* ensure, snapshot, invariant), the contract checker and the DBCMeta      *)
(* metaclass build when functions are decorated and classes are created.   *)
(*                                                                         *)
(* The state is a HEAP, because the whole point of several properties      *)
(* (C04, C17, C18) is which mutable list objects are shared by reference:  *)
(*   lst : list objects (the __preconditions__ list of groups, the groups, *)
(*         __postconditions__, __postcondition_snapshots__, and the three  *)
(*         invariant lists of a class)                                     *)
(*   fo  : function objects with their __wrapped__ pointer and the list    *)
(*         attributes functools.update_wrapper copied onto them            *)
(*   cl  : class objects: bases, MRO, own dictionary (member name -> what  *)
(*         it is bound to), own invariant dunders (0 = not in own dict)    *)
(* A history is a sequence of class statements (each with its members'     *)
(* decorator stacks and its class decorators).  One action per step of     *)
(* the code: building the members, the metaclass namespace pass, class     *)
(* creation + wrapping + registration, each class decorator.               *)
(***************************************************************************)
EXTENDS Naturals, Integers, Sequences, FiniteSets, TLC

CONSTANTS
  HistSpace,          \* set of histories explored by Init
  SwNoOwnEmptyInvList,\* F6: an empty merged invariant list is not stored in the namespace of the subclass
  SwKeepBasePre,      \* F7: a base that provides the member without preconditions does not lift the others'
  SwSnapAnyChecker,   \* F11: snapshot accepts any checker on the stack (also one without postconditions)
  SwDropForeign,      \* F16: require/ensure return the checker found on the stack instead of what they were given
  SwWrapByLast,       \* F5: member wrapping decided by the last invariant only
  SwRebindWrapped,    \* F18a: an inherited member that is already wrapped is bound again in the subclass dictionary
  SwShareGroups,      \* F17: the merged precondition list of a subclass holds the base's group list objects themselves
  SwRecollapse,       \* F24: a class re-created from the dictionary of an existing class (dataclass(slots=True), attrs)
                      \*      inherits the contracts of the bases a second time
  SwCloneAdoptsInherited, \* F25: in a re-created class the wrappers of INHERITED members (bound in the dictionary of the
                      \*      original because of its invariants) are taken for definitions of the new class: they inherit
                      \*      from all bases (also from those that come later in the MRO) and their lists are re-bound on
                      \*      the function object of the base
  SwLateInvAppendsToBase, \* F26: @invariant on a class created through the metaclass BEFORE its base got invariants appends
                      \*      to the lists found on the base
  SwDiamondDuplicates, \* F27: a contract that reaches a class through several bases (a diamond) is collected once per path:
                      \*      listed and evaluated repeatedly; a snapshot conflicts with itself and the class is rejected
  SwShadow            \* F18b: a wrapper bound in a class dictionary shadows, for subclasses with several bases,
                      \*       definitions that come later in the method resolution order

VARIABLES
  hist,   \* the history being executed (constant during a behaviour)
  step,   \* index of the class statement being executed
  pc,     \* "members" | "meta" | "create" | "deco" | "done" | "failed"
  di,     \* index of the next class decorator
  lst,    \* list heap
  fo,     \* function heap
  cl,     \* classes created so far (index = class id = step of its statement)
  ns,     \* namespace of the class statement being executed: name -> member record
  regd,   \* classes announced to the registration hook, in order
  res     \* res[k]: outcome of class statement k: "ok" or the exception class

dvars == <<hist, step, pc, di, lst, fo, cl, ns, regd, res>>

-----------------------------------------------------------------------------
Max(S) == CHOOSE x \in S : \A y \in S : y <= x
RangeS(s) == {s[i] : i \in DOMAIN s}

NoMember == [kind |-> "none", f |-> 0, rb |-> FALSE]

\* first occurrences only (contracts are compared by identity = by their ordinal)
RECURSIVE Dedup(_)
Dedup(seq) == IF seq = <<>> THEN <<>>
              ELSE LET rest == Dedup(SubSeq(seq, 1, Len(seq) - 1)) last == seq[Len(seq)] IN
                   IF \E i \in DOMAIN rest : rest[i] = last THEN rest ELSE Append(rest, last)

\* ---- heaps -----------------------------------------------------------------
NewList(heap, elems) == Append(heap, elems)            \* the new object's id is Len(heap) + 1
\* (own: for a plain function the class statement that defined it - what `Class.member` resolves to is observable)
FnObj(k, w, pre, snap, post) == [k |-> k, w |-> w, pre |-> pre, snap |-> snap, post |-> post, own |-> 0]

\* walk the decorator stack (__wrapped__) and return the LAST object carrying contract lists (find_checker)
RECURSIVE FindChecker(_, _, _)
FindChecker(fh, f, found) ==
  LET here == IF fh[f].pre # 0 \/ fh[f].post # 0 THEN f ELSE found IN
  IF fh[f].w = 0 THEN here ELSE FindChecker(fh, fh[f].w, here)

RECURSIVE IsInvWrapped(_, _)
IsInvWrapped(fh, f) == fh[f].k = "invw" \/ (fh[f].w # 0 /\ IsInvWrapped(fh, fh[f].w))

\* effective contracts of a function object, read the way the wrappers read them at call time
EffPreOf(fh, lh, f)  == LET c == FindChecker(fh, f, 0) IN
                        IF c = 0 THEN <<>> ELSE [g \in DOMAIN lh[fh[c].pre] |-> lh[lh[fh[c].pre][g]]]
EffPostOf(fh, lh, f) == LET c == FindChecker(fh, f, 0) IN IF c = 0 THEN <<>> ELSE lh[fh[c].post]
EffSnapOf(fh, lh, f) == LET c == FindChecker(fh, f, 0) IN IF c = 0 THEN <<>> ELSE lh[fh[c].snap]

\* ---- attribute lookup through the MRO --------------------------------------------------------------
\* first class of k's MRO whose own dictionary binds name (0 if none)
RECURSIVE FirstWith(_, _, _, _)
FirstWith(ch, mro, i, name) ==
  IF i > Len(mro) THEN 0
  ELSE IF name \in DOMAIN ch[mro[i]].d /\ (~ch[mro[i]].d[name].rb \/ i = 1 \/ SwShadow)
         THEN mro[i] ELSE FirstWith(ch, mro, i + 1, name)
Lookup(ch, k, name) == LET o == FirstWith(ch, ch[k].mro, 1, name) IN IF o = 0 THEN NoMember ELSE ch[o].d[name]

\* the invariant dunders are looked up the same way; 0 = no class of the MRO has it
RECURSIVE FirstInv(_, _, _, _)
FirstInv(ch, mro, i, which) ==
  IF i > Len(mro) THEN 0
  ELSE IF ch[mro[i]][which] # 0 THEN ch[mro[i]][which] ELSE FirstInv(ch, mro, i + 1, which)
InvListOf(ch, k, which) == FirstInv(ch, ch[k].mro, 1, which)

-----------------------------------------------------------------------------
(* Step "members": every member of the class statement is defined and its   *)
(* decorator stack applied, bottom-up.                                      *)

CD == hist.cls[step]
\* a class statement may be the RE-CREATION of an earlier class k from its dictionary: type(K)(name, K.__bases__,
\* dict(K.__dict__)) - what dataclasses.dataclass(slots=True) and attrs do.  0 = an ordinary class statement.
CloneOf == IF "clone_of" \in DOMAIN CD THEN CD.clone_of ELSE 0
Names == RangeS(hist.names)
CON(c) == hist.con[c]

\* apply one decorator to function object f; returns [fh, lh, f, err]
ApplyDeco(fh, lh, f, d) ==
  LET chk == FindChecker(fh, f, 0) IN
  CASE d.d = "foreign" ->
         \* functools.wraps-style wrapper: copies the attribute references
         [fh |-> Append(fh, FnObj("foreign", f, fh[f].pre, fh[f].snap, fh[f].post)), lh |-> lh,
          f |-> Len(fh) + 1, err |-> "ok"]
    [] d.d = "foreign_bare" ->
         \* functools.wraps(f, updated=()): sets __wrapped__ (and name / doc) but copies no attribute of f
         [fh |-> Append(fh, FnObj("foreign", f, 0, 0, 0)), lh |-> lh, f |-> Len(fh) + 1, err |-> "ok"]
    [] d.d \in {"require", "ensure"} ->
         LET mk == chk = 0
             \* a new checker gets three fresh lists
             lh1 == IF mk THEN Append(Append(Append(lh, <<>>), <<>>), <<>>) ELSE lh
             fh1 == IF mk THEN Append(fh, FnObj("chk", f, Len(lh) + 1, Len(lh) + 2, Len(lh) + 3)) ELSE fh
             c   == IF mk THEN Len(fh) + 1 ELSE chk
             out == IF mk \/ SwDropForeign THEN c ELSE f
         IN
         IF d.d = "require" /\ Len(lh1[fh1[c].pre]) > 1
           THEN [fh |-> fh, lh |-> lh, f |-> f, err |-> "AssertionError"]     \* merged groups: no further precondition
         ELSE IF d.d = "require"
           THEN \* first group created on demand, then append
                LET outer == fh1[c].pre
                    lh2 == IF lh1[outer] = <<>> THEN [Append(lh1, <<>>) EXCEPT ![outer] = <<Len(lh1) + 1>>] ELSE lh1
                    grp == lh2[outer][1]
                IN [fh |-> fh1, lh |-> [lh2 EXCEPT ![grp] = Append(@, d.c)], f |-> out, err |-> "ok"]
           ELSE [fh |-> fh1, lh |-> [lh1 EXCEPT ![fh1[c].post] = Append(@, d.c)], f |-> out, err |-> "ok"]
    [] d.d = "snapshot" ->
         IF chk = 0 \/ (~SwSnapAnyChecker /\ lh[fh[chk].post] = <<>>)
           THEN [fh |-> fh, lh |-> lh, f |-> f, err |-> "ValueError"]
         ELSE IF \E i \in DOMAIN lh[fh[chk].snap] : CON(lh[fh[chk].snap][i]).name = CON(d.c).name
           THEN [fh |-> fh, lh |-> lh, f |-> f, err |-> "ValueError"]
         ELSE [fh |-> fh, lh |-> [lh EXCEPT ![fh[chk].snap] = Append(@, d.c)], f |-> f, err |-> "ok"]

RECURSIVE ApplyDecos(_, _, _, _, _)
ApplyDecos(fh, lh, f, decos, i) ==
  IF i > Len(decos) THEN [fh |-> fh, lh |-> lh, f |-> f, err |-> "ok"]
  ELSE LET r == ApplyDeco(fh, lh, f, decos[i]) IN
       IF r.err # "ok" THEN r ELSE ApplyDecos(r.fh, r.lh, r.f, decos, i + 1)

\* define member number i and the following ones; accumulates the namespace
RECURSIVE BuildMembers(_, _, _, _)
BuildMembers(fh, lh, nsp, i) ==
  IF i > Len(CD.members) THEN [fh |-> fh, lh |-> lh, ns |-> nsp, err |-> "ok"]
  ELSE LET m  == CD.members[i]
           f0 == Len(fh) + 1
           r  == ApplyDecos(Append(fh, [FnObj("plain", 0, 0, 0, 0) EXCEPT !.own = step]), lh, f0, m.decos, 1)
       IN IF "share" \in DOMAIN m /\ m.share = 1
            THEN \* the accessor is the very function object of the (first) base: `@Base.f.getter` keeps Base's setter
                 LET inh == Lookup(cl, CD.bases[1], m.name) IN
                 BuildMembers(fh, lh, [x \in DOMAIN nsp \cup {m.name} |->
                                         IF x = m.name THEN (IF inh.kind = "none" THEN NoMember ELSE [inh EXCEPT !.rb = FALSE])
                                         ELSE nsp[x]], i + 1)
          ELSE IF m.kind = "none"
            THEN \* an accessor the re-declared property does NOT have (e.g. no setter): the name is bound to nothing
                 \* in this class and shadows what the bases provide
                 BuildMembers(fh, lh, [x \in DOMAIN nsp \cup {m.name} |-> IF x = m.name THEN NoMember ELSE nsp[x]], i + 1)
          ELSE IF r.err # "ok" THEN [fh |-> r.fh, lh |-> r.lh, ns |-> nsp, err |-> r.err]
          ELSE BuildMembers(r.fh, r.lh, [x \in DOMAIN nsp \cup {m.name} |->
                                          IF x = m.name THEN [kind |-> m.kind, f |-> r.f, rb |-> FALSE] ELSE nsp[x]], i + 1)

EmptyNs == [x \in {} |-> NoMember]

Fail(e) == /\ res' = [res EXCEPT ![step] = e]
           /\ cl' = Append(cl, [bases |-> CD.bases, mro |-> CD.mro, d |-> EmptyNs, inv |-> 0, oncall |-> 0, onset |-> 0,
                                ok |-> FALSE])
           /\ pc' = "next"

Members ==
  /\ pc = "members"
  /\ LET r == IF CloneOf # 0
                THEN \* the namespace is the dictionary of the existing class: the very same function objects, also the
                     \* wrappers of inherited members that were bound in it (they are "own" definitions now)
                     [fh |-> fo, lh |-> lst, err |-> "ok",
                      ns |-> [x \in DOMAIN cl[CloneOf].d |->
                                IF SwCloneAdoptsInherited THEN [cl[CloneOf].d[x] EXCEPT !.rb = FALSE] ELSE cl[CloneOf].d[x]]]
                ELSE BuildMembers(fo, lst, EmptyNs, 1) IN
     /\ fo' = r.fh /\ lst' = r.lh
     /\ IF r.err = "ok"
          THEN ns' = r.ns /\ pc' = "meta" /\ UNCHANGED <<res, cl>>
          ELSE ns' = r.ns /\ Fail(r.err)
  /\ UNCHANGED <<hist, step, di, regd>>

-----------------------------------------------------------------------------
(* Step "meta": DBCMeta.__new__ before type.__new__: _dbc_decorate_namespace *)

\* concatenation of the invariant lists of the direct bases (each looked up through that base's MRO)
RECURSIVE BaseInvs(_, _, _, _)
BaseInvs(ch, lh, bases, which) ==
  IF bases = <<>> THEN <<>>
  ELSE LET l == InvListOf(ch, Head(bases), which)
           all == (IF l = 0 THEN <<>> ELSE lh[l]) \o BaseInvs(ch, lh, Tail(bases), which)
       IN IF SwDiamondDuplicates THEN all ELSE Dedup(all)
AnyBaseHas(ch, bases, which) == \E i \in DOMAIN bases : InvListOf(ch, bases[i], which) # 0

\* contracts of the bases for member `name` (function or property accessor): in base order
RECURSIVE BaseLists(_, _, _, _, _, _)
BaseLists(ch, fh, lh, bases, name, acc) ==
  IF bases = <<>> THEN acc
  ELSE LET mem == Lookup(ch, Head(bases), name)
           c   == IF mem.kind = "none" THEN 0 ELSE FindChecker(fh, mem.f, 0)
           \* the same contracts can arrive through several bases (diamond): collected once (unless SwDiamondDuplicates);
           \* groups are the same if they list the very same contracts
           newPre == IF c = 0 THEN <<>>
                     ELSE IF SwDiamondDuplicates THEN lh[fh[c].pre]
                     ELSE SelectSeq(lh[fh[c].pre], LAMBDA g : ~\E i \in DOMAIN acc.pre : lh[acc.pre[i]] = lh[g])
           acc1 == [has  |-> acc.has \/ mem.kind # "none",
                    pre  |-> acc.pre \o newPre,
                    snap |-> IF c = 0 THEN acc.snap
                             ELSE IF SwDiamondDuplicates THEN acc.snap \o lh[fh[c].snap] ELSE Dedup(acc.snap \o lh[fh[c].snap]),
                    post |-> IF c = 0 THEN acc.post
                             ELSE IF SwDiamondDuplicates THEN acc.post \o lh[fh[c].post] ELSE Dedup(acc.post \o lh[fh[c].post]),
                    free |-> acc.free \/ (mem.kind # "none" /\ (c = 0 \/ lh[fh[c].pre] = <<>>))]
       IN BaseLists(ch, fh, lh, Tail(bases), name, acc1)

DupSnap(lh, snaps) == \E i, j \in DOMAIN snaps : i < j /\ CON(snaps[i]).name = CON(snaps[j]).name

\* append copies of the lists ids[i..n] to the heap
RECURSIVE CopyLists(_, _, _, _)
CopyLists(lh, ids, i, n) == IF i > n THEN lh ELSE CopyLists(Append(lh, lh[ids[i]]), ids, i + 1, n)

\* decorate one namespace entry; returns [fh, lh, ns, err]
MetaMember(fh, lh, nsp, name) ==
  LET mem  == nsp[name]
      chk  == IF mem.kind = "none" THEN 0 ELSE FindChecker(fh, mem.f, 0)
      ownPre  == IF chk = 0 THEN <<>> ELSE lh[fh[chk].pre]       \* sequence of group list ids
      ownSnap == IF chk = 0 THEN <<>> ELSE lh[fh[chk].snap]
      ownPost == IF chk = 0 THEN <<>> ELSE lh[fh[chk].post]
      ctor == name \in {"__init__", "__new__"}
      b == IF ctor THEN [has |-> FALSE, pre |-> <<>>, snap |-> <<>>, post |-> <<>>, free |-> FALSE]
           ELSE BaseLists(cl, fh, lh, CD.bases, name, [has |-> FALSE, pre |-> <<>>, snap |-> <<>>, post |-> <<>>, free |-> FALSE])
      \* "require else": inherited groups first, then the own group; if an ancestor accepts every call the
      \* effective precondition is TRUE (no group at all)
      \* contracts that were inherited from the bases before (a re-created class) are not inherited a second time:
      \* the very same contract objects are recognised (unless SwRecollapse)
      ownPreD  == IF SwRecollapse THEN ownPre
                  ELSE SelectSeq(ownPre, LAMBDA g : ~\E i \in DOMAIN b.pre : lh[g] = lh[b.pre[i]])
      ownSnapD == IF SwRecollapse THEN ownSnap ELSE SelectSeq(ownSnap, LAMBDA c : ~\E i \in DOMAIN b.snap : b.snap[i] = c)
      ownPostD == IF SwRecollapse THEN ownPost ELSE SelectSeq(ownPost, LAMBDA c : ~\E i \in DOMAIN b.post : b.post[i] = c)
      pre  == IF ~SwKeepBasePre /\ b.free THEN <<>> ELSE b.pre \o ownPreD
      snap == b.snap \o ownSnapD
      post == b.post \o ownPostD
  IN
  IF mem.kind = "none" THEN [fh |-> fh, lh |-> lh, ns |-> nsp, err |-> "ok"]
  ELSE IF ~ctor /\ b.pre = <<>> /\ b.has /\ ownPre # <<>>
    THEN [fh |-> fh, lh |-> lh, ns |-> nsp, err |-> "TypeError"]      \* weakening although the bases accept everything
  ELSE IF ~ctor /\ DupSnap(lh, snap)
    THEN [fh |-> fh, lh |-> lh, ns |-> nsp, err |-> "ValueError"]
  ELSE IF ctor \/ (pre = <<>> /\ post = <<>> /\ chk = 0)
    THEN \* nothing to merge; for constructors the own lists stay as they are
         [fh |-> fh, lh |-> lh, ns |-> nsp, err |-> "ok"]
  ELSE \* fresh lists hold the merged contracts; a checker is created if the function has none.
       \* The inherited groups are copied (unless SwShareGroups): a group object shared with the base could be
       \* appended to through the subclass's checker.
       LET ninh == IF SwShareGroups \/ pre = <<>> THEN 0 ELSE Len(b.pre)
           lh0 == CopyLists(lh, b.pre, 1, ninh)
           pre1 == IF ninh = 0 THEN pre ELSE [i \in 1..ninh |-> Len(lh) + i] \o ownPreD
           lh1 == Append(Append(Append(lh0, pre1), snap), post)
           p == Len(lh0) + 1  s == Len(lh0) + 2  q == Len(lh0) + 3
       IN IF chk # 0
            THEN [fh |-> [fh EXCEPT ![chk].pre = p, ![chk].snap = s, ![chk].post = q], lh |-> lh1, ns |-> nsp, err |-> "ok"]
            ELSE [fh |-> Append(fh, FnObj("chk", mem.f, p, s, q)), lh |-> lh1,
                  ns |-> [nsp EXCEPT ![name] = [kind |-> mem.kind, f |-> Len(fh) + 1, rb |-> FALSE]], err |-> "ok"]

\* every entry of the namespace (for an ordinary class statement: the members it declares), in a fixed order
RECURSIVE SeqOfSet(_)
SeqOfSet(S) == IF S = {} THEN <<>> ELSE LET x == CHOOSE y \in S : TRUE IN <<x>> \o SeqOfSet(S \ {x})
RECURSIVE MetaMembersOf(_, _, _, _, _)
MetaMembersOf(fh, lh, nsp, names, i) ==
  IF i > Len(names) THEN [fh |-> fh, lh |-> lh, ns |-> nsp, err |-> "ok"]
  ELSE IF nsp[names[i]].kind # "none" /\ nsp[names[i]].rb
         THEN MetaMembersOf(fh, lh, nsp, names, i + 1)     \* an inherited member stays what it is
  ELSE LET r == MetaMember(fh, lh, nsp, names[i]) IN
       IF r.err # "ok" THEN r ELSE MetaMembersOf(r.fh, r.lh, r.ns, names, i + 1)
MetaMembers(fh, lh, nsp, i) ==
  MetaMembersOf(fh, lh, nsp, IF CloneOf # 0 THEN SeqOfSet(DOMAIN nsp) ELSE [j \in DOMAIN CD.members |-> CD.members[j].name], 1)

\* _collapse_invariants for one dunder: a new merged list in the namespace
CollapseInv(lh, which) ==
  LET inh == BaseInvs(cl, lh, CD.bases, which)
      \* a re-created class brings the list of the existing class in its namespace (if that class owns one)
      nsl == IF CloneOf # 0 /\ cl[CloneOf][which] # 0 THEN lh[cl[CloneOf][which]] ELSE <<>>
      own == IF SwRecollapse THEN nsl ELSE SelectSeq(nsl, LAMBDA c : ~\E i \in DOMAIN inh : inh[i] = c)
      merged == inh \o own
  IN
  IF merged # <<>> \/ (~SwNoOwnEmptyInvList /\ AnyBaseHas(cl, CD.bases, which))
     \/ (CloneOf # 0 /\ cl[CloneOf][which] # 0)
    THEN [lh |-> Append(lh, merged), id |-> Len(lh) + 1]
    ELSE [lh |-> lh, id |-> 0]

Meta ==
  /\ pc = "meta"
  /\ LET r  == IF CD.dbc THEN MetaMembers(fo, lst, ns, 1) ELSE [fh |-> fo, lh |-> lst, ns |-> ns, err |-> "ok"] IN
     IF r.err # "ok"
       THEN /\ fo' = r.fh /\ lst' = r.lh /\ ns' = r.ns /\ Fail(r.err)
       ELSE LET c1 == IF CD.dbc THEN CollapseInv(r.lh, "inv") ELSE [lh |-> r.lh, id |-> 0]
                c2 == IF CD.dbc THEN CollapseInv(c1.lh, "oncall") ELSE [lh |-> c1.lh, id |-> 0]
                c3 == IF CD.dbc THEN CollapseInv(c2.lh, "onset") ELSE [lh |-> c2.lh, id |-> 0]
            IN /\ fo' = r.fh /\ lst' = c3.lh /\ ns' = r.ns
               /\ cl' = Append(cl, [bases |-> CD.bases, mro |-> CD.mro, d |-> r.ns, inv |-> c1.id, oncall |-> c2.id,
                                    onset |-> c3.id, ok |-> TRUE])
               /\ pc' = "create" /\ UNCHANGED res
  /\ UNCHANGED <<hist, step, di, regd>>

-----------------------------------------------------------------------------
(* Step "create": the class exists; add_invariant_checks if it has           *)
(* invariants (through inheritance); registration hook.                      *)

IsHidden(name) == name \in {"_prot", "__priv"}
Public(name) == name \notin {"__init__", "__new__", "__repr__", "__getattribute__"} /\ ~IsHidden(name)

\* all names visible on class k (dir): union of the dictionaries along the MRO
NamesOf(ch, k) == UNION {DOMAIN ch[ch[k].mro[i]].d : i \in DOMAIN ch[k].mro}

WantsWrap(ch, lh, k) ==
  LET l == InvListOf(ch, k, "inv")
      oc == InvListOf(ch, k, "oncall")
  IN IF l = 0 \/ lh[l] = <<>> THEN FALSE
     ELSE IF SwWrapByLast THEN CON(lh[l][Len(lh[l])]).on \in {"CALL", "ALL"}
     ELSE oc # 0 /\ lh[oc] # <<>>

\* wrap the public members of class k (inherited ones too: the wrapper is bound in k's own dictionary)
RECURSIVE WrapAll(_, _, _, _)
WrapAll(fh, ch, k, names) ==
  IF names = {} THEN [fh |-> fh, ch |-> ch]
  ELSE LET name == CHOOSE x \in names : TRUE
           mem  == Lookup(ch, k, name)
       IN IF ~Public(name) \/ mem.kind \notin {"fn", "prop", "pset"}     \* pset: the setter of a property
            THEN WrapAll(fh, ch, k, names \ {name})
          ELSE IF IsInvWrapped(fh, mem.f)
            THEN \* already wrapped: an inherited member stays where it is
                 IF SwRebindWrapped /\ name \notin DOMAIN ch[k].d
                   THEN WrapAll(fh, [ch EXCEPT ![k].d = [x \in DOMAIN ch[k].d \cup {name} |->
                                       IF x = name THEN [mem EXCEPT !.rb = TRUE] ELSE ch[k].d[x]]], k, names \ {name})
                   ELSE WrapAll(fh, ch, k, names \ {name})
          ELSE LET w == FnObj("invw", mem.f, fh[mem.f].pre, fh[mem.f].snap, fh[mem.f].post)
                   fh1 == Append(fh, w)
                   own == name \in DOMAIN ch[k].d /\ ~ch[k].d[name].rb
                   nm == [kind |-> mem.kind, f |-> Len(fh) + 1, rb |-> ~own]
               IN WrapAll(fh1, [ch EXCEPT ![k].d = [x \in DOMAIN ch[k].d \cup {name} |-> IF x = name THEN nm ELSE ch[k].d[x]]],
                          k, names \ {name})

AddInvChecks(fh, lh, ch, k) ==
  IF WantsWrap(ch, lh, k) THEN WrapAll(fh, ch, k, NamesOf(ch, k)) ELSE [fh |-> fh, ch |-> ch]

Create ==
  /\ pc = "create"
  /\ LET k == step
         r == IF CD.dbc /\ InvListOf(cl, k, "inv") # 0 THEN AddInvChecks(fo, lst, cl, k) ELSE [fh |-> fo, ch |-> cl]
     IN /\ fo' = r.fh /\ cl' = r.ch
        \* every class created through the metaclass outside the library's own module is announced
        /\ regd' = IF CD.dbc /\ CD.mod # "icontract._metaclass" THEN Append(regd, k) ELSE regd
        \* (the class decorators of a re-created class: only those applied after the re-creation)
        /\ pc' = "deco" /\ di' = IF CloneOf # 0 THEN Len(hist.cls[CloneOf].invs) + 1 ELSE 1
  /\ UNCHANGED <<hist, step, lst, ns, res>>

-----------------------------------------------------------------------------
(* Step "deco": the class decorators (@invariant), applied bottom-up.       *)

\* icontract.invariant(..)(class k) with contract c: returns the new heaps
ApplyInvDeco(k, c) ==
  LET has == InvListOf(cl, k, "inv") # 0             \* hasattr(cls, "__invariants__")
      own == cl[k].inv # 0                            \* "__invariants__" in cls.__dict__
      \* the three lists the decorator appends to: created on the class, found through inheritance, or - a class
      \* created through the metaclass before its base got invariants - copies of the lists found on the base
      copy == has /\ ~own /\ hist.cls[k].dbc /\ ~SwLateInvAppendsToBase
      lh1 == IF ~has THEN Append(Append(Append(lst, <<>>), <<>>), <<>>)
             ELSE IF copy THEN Append(Append(Append(lst, lst[InvListOf(cl, k, "inv")]), lst[InvListOf(cl, k, "oncall")]),
                                      lst[InvListOf(cl, k, "onset")])
             ELSE lst
      cl1 == IF ~has \/ copy THEN [cl EXCEPT ![k].inv = Len(lst) + 1, ![k].oncall = Len(lst) + 2, ![k].onset = Len(lst) + 3]
             ELSE cl
      li == InvListOf(cl1, k, "inv")
      lc == InvListOf(cl1, k, "oncall")
      ls == InvListOf(cl1, k, "onset")
      lh2 == [lh1 EXCEPT ![li] = Append(@, c)]
      lh3 == IF CON(c).on \in {"CALL", "ALL"} THEN [lh2 EXCEPT ![lc] = Append(@, c)] ELSE lh2
      lh4 == IF CON(c).on \in {"SETATTR", "ALL"} THEN [lh3 EXCEPT ![ls] = Append(@, c)] ELSE lh3
      r == AddInvChecks(fo, lh4, cl1, k)
  IN [lh |-> lh4, fh |-> r.fh, ch |-> r.ch]

Deco ==
  /\ pc = "deco"
  /\ IF di > Len(CD.invs)
       THEN /\ res' = [res EXCEPT ![step] = "ok"] /\ pc' = "next"
            /\ UNCHANGED <<lst, fo, cl, di>>
       ELSE LET r == ApplyInvDeco(step, CD.invs[di].c)
            IN /\ lst' = r.lh /\ fo' = r.fh /\ cl' = r.ch /\ di' = di + 1
               /\ UNCHANGED <<pc, res>>
  /\ UNCHANGED <<hist, step, ns, regd>>

NextStmt ==
  /\ pc = "next"
  /\ IF step < Len(hist.cls) /\ res[step] = "ok"      \* a rejected class statement ends the history
       THEN step' = step + 1 /\ pc' = "members" /\ di' = 1
       ELSE IF res[step] = "ok" /\ hist.posthoc # <<>>
         THEN step' = step /\ pc' = "posthoc" /\ di' = 1
         ELSE step' = step /\ pc' = "done" /\ di' = 1
  /\ ns' = EmptyNs
  /\ UNCHANGED <<hist, lst, fo, cl, regd, res>>

(* Decorating a member of an already created class after the fact:              *)
(*     K.name = icontract.require(...)(K.name)                                  *)
PostHoc ==
  /\ pc = "posthoc"
  /\ IF di > Len(hist.posthoc)
       THEN pc' = "done" /\ UNCHANGED <<lst, fo, cl, di, res>>
       ELSE IF hist.posthoc[di].d.d \in {"require_partial", "ensure_partial", "require_raw", "ensure_raw"}
         THEN \* icontract.require(..)(functools.partial(K.name)) / icontract.require(..)(<the undecorated function at the
              \* bottom of K.name's decorator stack>): the new callable gets a checker of its own; nothing
              \* that exists is touched
              /\ di' = di + 1 /\ pc' = "posthoc" /\ UNCHANGED <<lst, fo, cl, res>>
       ELSE IF hist.posthoc[di].d.d = "invariant"
         THEN \* a class decorated with an invariant after later classes (its subclasses) have been created
              LET r == ApplyInvDeco(hist.posthoc[di].k, hist.posthoc[di].d.c)
              IN /\ lst' = r.lh /\ fo' = r.fh /\ cl' = r.ch /\ di' = di + 1 /\ pc' = "posthoc" /\ res' = res
       ELSE LET ph  == hist.posthoc[di]
                mem == Lookup(cl, ph.k, ph.name)
                r   == ApplyDeco(fo, lst, mem.f, ph.d)
            IN /\ di' = di + 1 /\ pc' = "posthoc"
               /\ IF r.err = "ok"
                    THEN /\ fo' = r.fh /\ lst' = r.lh
                         /\ cl' = [cl EXCEPT ![ph.k].d = [x \in DOMAIN cl[ph.k].d \cup {ph.name} |->
                                       IF x = ph.name THEN [kind |-> mem.kind, f |-> r.f, rb |-> FALSE] ELSE cl[ph.k].d[x]]]
                    ELSE UNCHANGED <<fo, lst, cl>>
               /\ res' = res
  /\ UNCHANGED <<hist, step, ns, regd>>

DNext == Members \/ Meta \/ Create \/ Deco \/ NextStmt \/ PostHoc

DInitOf(h) ==
  /\ hist = h /\ step = 1 /\ pc = "members" /\ di = 1
  /\ lst = <<>> /\ fo = <<>> /\ cl = <<>> /\ ns = EmptyNs /\ regd = <<>>
  /\ res = [k \in DOMAIN h.cls |-> "pending"]

DInit == \E h \in HistSpace : DInitOf(h)
DSpec == DInit /\ [][DNext]_dvars

-----------------------------------------------------------------------------
(* Projection: what the introspection interface shows for class k.           *)

EffInvOf(ch, lh, k, which) == LET l == InvListOf(ch, k, which) IN IF l = 0 THEN <<>> ELSE lh[l]

RECURSIVE CountCheckers(_, _)
CountCheckers(fh, f) == (IF fh[f].k = "chk" THEN 1 ELSE 0) + (IF fh[f].w = 0 THEN 0 ELSE CountCheckers(fh, fh[f].w))
RECURSIVE Bottom(_, _)
Bottom(fh, f) == IF fh[f].w = 0 THEN f ELSE Bottom(fh, fh[f].w)
RECURSIVE CountForeign(_, _)
CountForeign(fh, f) == (IF fh[f].k = "foreign" THEN 1 ELSE 0) + (IF fh[f].w = 0 THEN 0 ELSE CountForeign(fh, fh[f].w))

MemberView(ch, fh, lh, k, name) ==
  LET mem == Lookup(ch, k, name) IN
  IF mem.kind = "none" THEN [kind |-> "none", pre |-> <<>>, snap |-> <<>>, post |-> <<>>, invw |-> FALSE, nchk |-> 0, nfor |-> 0,
                             orig |-> 0]
  ELSE [kind |-> mem.kind, pre |-> EffPreOf(fh, lh, mem.f), snap |-> EffSnapOf(fh, lh, mem.f),
        orig |-> fh[Bottom(fh, mem.f)].own,      \* the class whose definition the name resolves to
        post |-> EffPostOf(fh, lh, mem.f), invw |-> IsInvWrapped(fh, mem.f),
        nchk |-> CountCheckers(fh, mem.f), nfor |-> CountForeign(fh, mem.f)]

\* identities of the list objects behind a member: outer precondition list, snapshots, postconditions, groups
MemberListIds(ch, fh, lh, k, name) ==
  LET mem == Lookup(ch, k, name)
      c == IF mem.kind = "none" THEN 0 ELSE FindChecker(fh, mem.f, 0)
  IN IF c = 0 THEN <<>> ELSE <<fh[c].pre, fh[c].snap, fh[c].post>> \o lh[fh[c].pre]

ClassView(ch, fh, lh, k) ==
  [inv |-> EffInvOf(ch, lh, k, "inv"), oncall |-> EffInvOf(ch, lh, k, "oncall"), onset |-> EffInvOf(ch, lh, k, "onset"),
   members |-> [name \in Names |-> MemberView(ch, fh, lh, k, name)]]
=============================================================================
