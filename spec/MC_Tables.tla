------------------------------ MODULE MC_Tables ------------------------------
EXTENDS ICTables, Json
PrintExpected == PrintT(ToJson(Expected))
=============================================================================
