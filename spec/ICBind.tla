------------------------------- MODULE ICBind -------------------------------
(***************************************************************************)
(* Which argument values a contract sees (C05).                             *)
(*                                                                         *)
(* Bind    : Python's own binding rule for a call (declarative reference). *)
(* Resolve : the library's hand-written resolution (kwargs_from_call as    *)
(*           used by the contract checker), transcribed.                   *)
(* Every <<signature, call>> of the bounded universe is one state; TLC     *)
(* checks BindAgree on all of them and prints each as a test vector that   *)
(* is replayed on the implementation.                                      *)
(* Parameters are identified by their position i in the signature (their   *)
(* name is "p<i>"); keyword 0 is a keyword that names no parameter.        *)
(***************************************************************************)
EXTENDS Naturals, Sequences, FiniteSets, TLC

CONSTANTS MaxParams,            \* longest signature
          MaxPos,               \* most positional arguments in a call
          SwIndexAll,           \* F8a: positionals are matched by index against ALL parameter names
          SwKwOverridesPosOnly  \* F8b: a keyword argument overrides a positional-only parameter of the same name

VARIABLES sig, npos, kws
bvars == <<sig, npos, kws>>

Kinds == {"po", "pk", "va", "ko", "vk"}
Rank(k) == CASE k = "po" -> 1 [] k = "pk" -> 2 [] k = "va" -> 3 [] k = "ko" -> 4 [] k = "vk" -> 5
Param == [kind : Kinds, dflt : BOOLEAN]

ValidSig(s) ==
  /\ \A i \in 1..(Len(s) - 1) : Rank(s[i].kind) <= Rank(s[i + 1].kind)
  /\ Cardinality({i \in DOMAIN s : s[i].kind = "va"}) <= 1
  /\ Cardinality({i \in DOMAIN s : s[i].kind = "vk"}) <= 1
  /\ \A i \in DOMAIN s : s[i].kind \in {"va", "vk"} => ~s[i].dflt
  \* a positional parameter without default may not follow one with a default
  /\ \A i, j \in DOMAIN s : (i < j /\ s[i].kind \in {"po", "pk"} /\ s[j].kind \in {"po", "pk"} /\ s[i].dflt) => s[j].dflt

Sigs == UNION {{s \in [1..n -> Param] : ValidSig(s)} : n \in 0..MaxParams}

PP(s)     == {i \in DOMAIN s : s[i].kind \in {"po", "pk"}}          \* positional-capable (a prefix)
Named(s)  == {i \in DOMAIN s : s[i].kind \in {"po", "pk", "ko"}}    \* the non-variadic parameters
HasVa(s)  == \E i \in DOMAIN s : s[i].kind = "va"
HasVk(s)  == \E i \in DOMAIN s : s[i].kind = "vk"
KwTarget(s, k) == IF k \in DOMAIN s /\ s[k].kind \in {"pk", "ko"} THEN k ELSE 0   \* parameter a keyword binds to

(* ---- Python's rule ---- *)
BindOK(s, n, ks) ==
  /\ (n > Cardinality(PP(s)) => HasVa(s))
  /\ \A k \in ks : IF KwTarget(s, k) # 0 THEN ~(k \in PP(s) /\ k <= n)      \* not "multiple values"
                   ELSE HasVk(s)                                              \* swallowed by **kwargs
  /\ \A i \in Named(s) : (i \in PP(s) /\ i <= n) \/ (KwTarget(s, i) = i /\ i \in ks) \/ s[i].dflt
BindVal(s, n, ks, i) ==
  IF i \in PP(s) /\ i <= n THEN <<"P", i>>
  ELSE IF KwTarget(s, i) = i /\ i \in ks THEN <<"K", i>>
  ELSE <<"D", i>>

(* ---- the library's procedure ---- *)
\* the parameter names positional arguments are matched against, by index
PosNames(s) == IF SwIndexAll THEN [i \in DOMAIN s |-> i]
               ELSE [i \in 1..Cardinality({j \in DOMAIN s : s[j].kind \in {"po", "pk", "va"}}) |-> i]
KwOverrides(s, k) == k \in DOMAIN s /\ (SwKwOverridesPosOnly \/ s[k].kind # "po")
ResHas(s, n, ks, i) == s[i].dflt \/ (i \in DOMAIN PosNames(s) /\ i <= n) \/ (i \in ks /\ KwOverrides(s, i))
ResVal(s, n, ks, i) ==
  IF i \in ks /\ KwOverrides(s, i) THEN <<"K", i>>            \* keywords are applied last
  ELSE IF i \in DOMAIN PosNames(s) /\ i <= n THEN <<"P", i>>
  ELSE <<"D", i>>

(* ---- obligations ---- *)
BindAgree ==
  BindOK(sig, npos, kws) =>
    \A i \in Named(sig) : ResHas(sig, npos, kws, i) /\ ResVal(sig, npos, kws, i) = BindVal(sig, npos, kws, i)

BInit ==
  /\ sig \in Sigs
  /\ npos \in 0..MaxPos
  /\ kws \in SUBSET (0..Len(sig))
BNext == UNCHANGED bvars
BSpec == BInit /\ [][BNext]_bvars

\* one JSON line per state: the test vector and what the body / every contract must receive
Vector == [sig |-> sig, npos |-> npos, kws |-> kws, ok |-> BindOK(sig, npos, kws),
           vals |-> [i \in DOMAIN sig |-> IF i \in Named(sig) /\ BindOK(sig, npos, kws) THEN BindVal(sig, npos, kws, i) ELSE <<"-", 0>>]]
=============================================================================
