-------------------------------- MODULE ICMsg --------------------------------
(***************************************************************************)
(* Assembly of a violation message from the values to be shown (C20).      *)
(*                                                                         *)
(* A case: the call's arguments (name, kind and size of the value), which  *)
(* of them the condition names, the keyword order of the call, and the     *)
(* limits of the contract's own a_repr.  The message is a function of the  *)
(* SET of <<text, value>> pairs: lines sorted by text, every value         *)
(* rendered through the contract's a_repr (so its limits bound the line),  *)
(* classes / functions / methods / modules / builtins left out, _ARGS and  *)
(* _KWARGS left out unless the condition names them.                       *)
(***************************************************************************)
EXTENDS Naturals, Sequences, FiniteSets, TLC

CONSTANTS MsgSpace     \* set of cases
VARIABLES mc
mvars == <<mc>>

\* a case: [mid, args: Seq([name, kind, size]), order: permutation of 1..Len(args) (keyword order of the call),
\*          named: which special names the condition takes, maxstring, maxlist]
\* modsub: instance of a subclass of the module type; mwrapper: a method of a built-in type bound to an instance (`x.__len__`)
NonRepresentable == {"cls", "func", "method", "mod", "modsub", "builtin", "mwrapper"}
Listed(a) == a.kind \notin NonRepresentable

\* length of repr(str of length n) under maxstring m; number of list elements shown under maxlist k
ReprStrLen(n, m) == IF n + 2 <= m THEN n + 2 ELSE m
ShownElems(n, k) == IF n <= k THEN n ELSE k
Truncated(a) == CASE a.kind = "str" -> a.size + 2 > mc.maxstring
                  [] a.kind \in {"list", "strset"} -> a.size > mc.maxlist
                  [] OTHER -> FALSE

Names == {mc.args[i].name : i \in {j \in DOMAIN mc.args : Listed(mc.args[j])}}
        \cup (IF mc.named_args THEN {"_ARGS"} ELSE {}) \cup (IF mc.named_kwargs THEN {"_KWARGS"} ELSE {})

\* the names in sorted order: names are "a".."e" and the two specials; "_" sorts before the lowercase letters
Rank(nm) == CASE nm = "_ARGS" -> 1 [] nm = "_KWARGS" -> 2 [] nm = "a" -> 3 [] nm = "b" -> 4 [] nm = "c" -> 5
              [] nm = "d" -> 6 [] nm = "e" -> 7
RECURSIVE Sorted(_)
Sorted(S) == IF S = {} THEN <<>> ELSE LET m == CHOOSE x \in S : \A y \in S : Rank(x) <= Rank(y) IN <<m>> \o Sorted(S \ {m})
Lines == Sorted(Names)

ArgOf(nm) == mc.args[CHOOSE i \in DOMAIN mc.args : mc.args[i].name = nm]

(* ---- obligations (they hold by construction of Lines; the implementation is bound to Lines) ---- *)
\* the lines do not depend on the keyword order of the call: `order` does not occur in Lines
Canonical == \A i \in 1..(Len(Lines) - 1) : Rank(Lines[i]) < Rank(Lines[i + 1])
LeftOut == \A i \in DOMAIN mc.args : ~Listed(mc.args[i]) => \A j \in DOMAIN Lines : Lines[j] # mc.args[i].name
Bounded == \A j \in DOMAIN Lines : Lines[j] \notin {"_ARGS", "_KWARGS"} =>
             LET a == ArgOf(Lines[j]) IN
               (a.kind = "str" => ReprStrLen(a.size, mc.maxstring) <= mc.maxstring)
               /\ (a.kind \in {"list", "strset"} => ShownElems(a.size, mc.maxlist) <= mc.maxlist)

MInit == mc \in MsgSpace
MNext == UNCHANGED mvars
MSpec == MInit /\ [][MNext]_mvars

\* the value a function returned is, for its postconditions, a value like the arguments: of a kind that is left out, it is
\* left out (whether a representable result is listed the property does not say)
ResultOK == Listed(mc.result)

Expected == [mid |-> mc.mid, lines |-> Lines, result_ok |-> ResultOK,
             trunc |-> [j \in DOMAIN Lines |-> IF Lines[j] \in {"_ARGS", "_KWARGS"} THEN FALSE ELSE Truncated(ArgOf(Lines[j]))],
             strlen |-> [j \in DOMAIN Lines |-> IF Lines[j] \in {"_ARGS", "_KWARGS"} THEN 0
                                                 ELSE IF ArgOf(Lines[j]).kind = "str" THEN ReprStrLen(ArgOf(Lines[j]).size, mc.maxstring) ELSE 0],
             elems |-> [j \in DOMAIN Lines |-> IF Lines[j] \in {"_ARGS", "_KWARGS"} THEN 0
                                                ELSE IF ArgOf(Lines[j]).kind \in {"list", "strset"} THEN ShownElems(ArgOf(Lines[j]).size, mc.maxlist) ELSE 0]]
=============================================================================
