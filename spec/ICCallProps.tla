----------------------------- MODULE ICCallProps -----------------------------
(* The listed properties as invariants of the run-time machine.  They tie   *)
(* the operational layer (frames, markers) to the declarative layer         *)
(* (EffPre, EffPost, ShouldSkip...) of ICCall.                              *)
EXTENDS ICCall

Frames(t) == {stack[t][n] : n \in DOMAIN stack[t]}
AllFrames == UNION {Frames(t) : t \in Tasks}
Clean == prog.fault.at = 0            \* no injected fault in this behaviour
ViolationCls == {"Violation", "ErrClass", "ErrInst", "ErrFact"}

PreCons(f)  == UNION {{FN(f).pre[g][i] : i \in DOMAIN FN(f).pre[g]} : g \in DOMAIN FN(f).pre}
PostCons(f) == {FN(f).post[j] : j \in DOMAIN FN(f).post}
IsViolationOf(out, cs) == out.k = "raise" /\ out.v \in cs /\ out.cls \in {"Violation", "ErrClass", "ErrInst", "ErrFact", "TypeError"}

\* scripts of conditions / error factories of f never raise by themselves in the families used for C01/C02
(* ---- C01 ---- *)
\* the body of a checked (non re-entrant) call is entered only if the effective precondition holds
PreGate == (emit.e = "body.in" /\ ~emit.sk) => EffPre(emit.id, emit.a)
\* a call that ends with a precondition's error: the effective precondition is false, nothing was captured,
\* the body was never entered, and the error is that of the first falsy condition of the last group (C16)
PreBlock ==
  \A fr \in AllFrames :
    (fr.k = "chk" /\ fr.pc = "exit" /\ ~fr.skip /\ fr.ph = "pre") =>
       /\ fr.old = <<>> /\ fr.res = 0
       /\ (fr.exc.cls \in ViolationCls /\ fr.exc.v \in PreCons(fr.f))
             => (~EffPre(fr.f, fr.a) /\ fr.exc = ErrorOf(PreCulprit(fr.f, fr.a)))

(* ---- C02 ---- *)
\* a normal return of a checked call: every postcondition holds and the value is the body's
PostGate ==
  \A fr \in AllFrames :
    (fr.k = "chk" /\ fr.pc = "exit" /\ ~fr.skip /\ fr.exc.k = "ret") =>
       /\ EffPre(fr.f, fr.a) /\ EffPost(fr.f, fr.a)
       /\ fr.exc.v = FN(fr.f).out[fr.a + 1].v
\* a postcondition's error: the first falsy postcondition
PostBlock ==
  \A fr \in AllFrames :
    (fr.k = "chk" /\ fr.pc = "exit" /\ ~fr.skip /\ fr.ph = "post" /\ fr.exc.cls \in ViolationCls
       /\ fr.exc.v \in PostCons(fr.f)) =>
       /\ ~EffPost(fr.f, fr.a)
       /\ fr.exc = ErrorOf(FirstFalsy(FN(fr.f).post, fr.a))
\* the body's exception reaches the caller unchanged; no postcondition is evaluated after it
ExcPass ==
  \A fr \in AllFrames :
    (fr.k = "chk" /\ fr.pc = "exit" /\ fr.ph = "body") => fr.exc = FN(fr.f).out[fr.a + 1] \/ ~Clean \/ fr.exc.cls \notin {"Exception", "KI", "GenExit", "SysExit"}

(* ---- C08 ---- *)
\* captures lie strictly between the preconditions and the body: when the body is entered by a checked call
\* with postconditions every snapshot has been captured exactly once, otherwise none
CaptureWindow ==
  \A fr \in AllFrames :
    (fr.k = "chk" /\ ~fr.skip /\ fr.pc = "bodycall") =>
       Len(fr.old) = IF FN(fr.f).post = <<>> THEN 0 ELSE Len(FN(fr.f).snap)
OldIsCaptured ==
  \* (emit.a is the argument of the call whose postcondition is evaluated: each call sees the values captured for IT,
  \*  also when calls of the same callable overlap)
  (emit.e = "cond.in" /\ emit.ph = "post" /\ ~CON(emit.id).noold) =>
     emit.old = [n \in DOMAIN FN(FnOfCon(emit.id)).snap |->
                   LET sn == SNP(FN(FnOfCon(emit.id)).snap[n]) IN
                   sn.val + (IF "byarg" \in DOMAIN sn /\ sn.byarg = 1 THEN emit.a ELSE 0)]

(* ---- C10 / C11 / C12 ---- *)
\* markers visible to a task are exactly those justified by frames of that task (R1-R4 of the design)
Justified(t) ==
  {FKey(f) : f \in {fr.f : fr \in {x \in Frames(t) : x.k = "chk" /\ ~x.skip /\ x.pc \in ContractPc}}}
  \cup {OKey(o) : o \in {fr.o : fr \in {x \in Frames(t) : x.k \in {"inv", "init"} /\ x.mk /\ x.pc # "exit"}}}
MarksMatchFrames == \A t \in Tasks : (busy # t /\ status[t] # "idle") => View(t) = Justified(t)
\* a call is skipped iff ShouldSkip: checked at the moment the body is entered
SkipExactly ==
  (emit.e = "body.in") =>
     LET t == emit.t st == stack[t] n == Len(st) - 1 IN   \* st[n] is the innermost wrapper (st[n+1] the body)
       (st[n].k = "chk") => (emit.sk <=> ShouldSkipFn(SubSeq(st, 1, n - 1), st[n].f))
\* the stack of a task stays bounded by the size of the program (no unbounded recursion)
Bounded == \A t \in Tasks : Len(stack[t]) <= 8 * (Len(prog.fn) + Len(prog.con) + 2)
\* Termination (C10): the event history grows with every event, so the state graph of a program is acyclic and
\* TLC finishing the exploration shows there is no infinite behaviour; a behaviour can only end in a state where every
\* task is done (a library frame without an applicable step is an evaluation error of a CASE, reported by TLC).
NoStuck == AllDone \/ \E t \in Tasks : status[t] \in {"ready", "susp"}
\* when a task is back in its driver, nothing is suspended for it
Rearmed == \A t \in Tasks : (status[t] # "idle" /\ busy # t /\ Len(stack[t]) <= 1) => View(t) = {}

(* ---- C12 ---- *)
\* what the caller of a script-free plain function must get, whatever else is in flight
RefOutcomeFn(f, a) ==
  IF ~EffPre(f, a) THEN ErrorOf(PreCulprit(f, a))
  ELSE IF FN(f).out[a + 1].k = "raise" THEN FN(f).out[a + 1]
  ELSE IF ~EffPost(f, a) THEN ErrorOf(FirstFalsy(FN(f).post, a))
  ELSE FN(f).out[a + 1]
\* (a script that only awaits - suspension points of a coroutine function - makes no call: the verdict is still a
\*  function of the call alone; without this the obligation would be vacuous for every asyncio-like program)
Quiet(sc) == \A i \in DOMAIN sc : sc[i].op = "await"
ScriptFree(f) == Quiet(FN(f).script) /\ \A c \in ConsOfFn(f) : Quiet(CON(c).script) /\ CON(c).escript = <<>>
                                    /\ (CON(c).rv = "bool" \/ (CON(c).rv = "corofn" /\ FN(f).async)) /\ CON(c).err # "badfactory"
                 /\ \A n \in DOMAIN FN(f).snap : (SNP(FN(f).snap[n]).rv = "bool" \/ (SNP(FN(f).snap[n]).rv = "corofn" /\ FN(f).async)) /\ Quiet(SNP(FN(f).snap[n]).script)
\* argument of the call the driver of task t made last
LastArg(t) == prog.drv[t][stack[t][1].pos - 1].a
\* the verdict of a call depends only on the call: checked where the driver of a task gets the outcome
VerdictIndependent ==
  (emit.e = "ret" /\ emit.ph = "drv" /\ Clean /\ FN(emit.id).cls = 0 /\ FN(emit.id).chain = <<"chk">> /\ ScriptFree(emit.id)) =>
     LET op  == prog.drv[emit.t][stack[emit.t][1].pos - 1]
         ref == IF IsBad(op) /\ FN(emit.id).post # <<>> THEN Raise("TypeError", BadKwId)
                ELSE RefOutcomeFn(emit.id, LastArg(emit.t)) IN
       /\ emit.v = ref.v
       /\ emit.cls = IF ref.k = "ret" THEN "ret" ELSE ref.cls
=============================================================================
