------------------------------ MODULE MC_Expr ------------------------------
EXTENDS ICExpr, Json, IOUtils
MCCaseSpace == LET cs == ndJsonDeserialize(IOEnv.CASES) IN {cs[i] : i \in DOMAIN cs}
\* one line per violated case: what the message must show and what the re-evaluator may touch
PrintCase ==
  Violated => PrintT(ToJson([cid |-> case.cid, rec |-> RecRes.st,
                             shown |-> {<<pv[1], pv[2].t, pv[2].n, pv[2].s>> : pv \in Shown},
                             touched |-> RecRes.tc, evaluated |-> PyRes.ev, nonefree |-> NoneFree,
                             identcalls |-> Cardinality({pv \in RecRes.val : pv[1] # 0 /\ Expr[pv[1]].k = "ident"})]))
\* every case, violated or not: Python's verdict according to the specification (cross-checked against CPython)
PrintPy == PrintT(ToJson([cid |-> case.cid, py |-> PyRes.st, truthy |-> IF PyRes.st = "ok" THEN Truthy(PyRes.v) ELSE FALSE,
                          v |-> <<PyRes.v.t, PyRes.v.n, PyRes.v.s>>, evaluated |-> PyRes.ev]))
=============================================================================
