------------------------------- MODULE ICCall -------------------------------
(***************************************************************************)
(* Run-time machine of icontract: what happens between the moment user     *)
(* code calls a contracted callable and the moment the caller gets a value *)
(* or an exception.                                                        *)
(*                                                                         *)
(* The unit of observation is a CROSSING of the library/user boundary:     *)
(* every entry into and exit from a user-supplied callable (condition,     *)
(* capture, body, error factory), every call such a callable makes, and    *)
(* what the outermost caller (the driver) receives.  Each crossing is one  *)
(* EVENT; the library's own work between two crossings is modelled as      *)
(* SILENT steps.  A task takes turns "silent* ; event".                    *)
(*                                                                         *)
(* The machine is written as the wrappers of icontract/_checkers.py are:   *)
(* one frame per wrapper activation (checker, invariant wrapper,           *)
(* constructor wrapper, __new__ wrapper) with a program counter, plus one  *)
(* frame per activation of user code running a SCRIPT (the calls it makes).*)
(* Deviation switches (Sw...) reproduce documented deviations of the       *)
(* pinned code from the properties; with all switches FALSE the machine    *)
(* is the behaviour the properties demand.                                 *)
(***************************************************************************)
EXTENDS Naturals, Integers, Sequences, FiniteSets, TLC

CONSTANTS
  ProgSpace,          \* set of programs (records) from which Init picks
  SwReentryDiscards,  \* F1: re-entrant short-cut of the checker sits inside the try whose finally discards the marker
  SwHoldDuringBody,   \* F2: the checker keeps its function marked while the body runs
  SwInitNested,       \* F4: every __init__ wrapper marks, checks all invariants and discards (not only the outermost)
  SwShareSet,         \* F3: a context copied from a parent that already ran contracted code aliases the parent's set
  SwFutureNotAwaited, \* F13: an awaitable that is not a coroutine object is judged without being awaited
  AsyncSched          \* TRUE: tasks are asyncio-like (switch only at suspension points); FALSE: thread-like

VARIABLES
  prog,     \* the program, oracle and fault plan (constant during a behaviour)
  stack,    \* stack[t] : sequence of frames of task t
  reg,      \* reg[t]   : outcome handed to the top frame by the frame that just popped
  status,   \* status[t] \in {"idle", "ready", "susp", "done"}
  cv,       \* cv[t]    : value of the ContextVar in t's context: 0 (None) or the id of a set object
  ips,      \* ips[s]   : content of set object s
  ost,      \* ost[o]   : abstract state of instance o (0 = not constructed yet)
  busy,     \* task in the middle of a turn (took silent steps, has not emitted its event yet), or 0
  nx,       \* number of user-code activations so far (fault plan index)
  ns,       \* number of suspensions so far (fault plan index for cancellation)
  emit,     \* the event emitted by the last step ("silent" if none)
  log       \* history of events (observation only)

vars == <<prog, stack, reg, status, cv, ips, ost, busy, nx, ns, emit, log>>

-----------------------------------------------------------------------------
(* Vocabulary                                                              *)

NoOut        == [k |-> "none", cls |-> "", v |-> 0]
\* kinds of injected faults that derive from Exception (the others derive from BaseException only)
ExceptionKinds == {"Exception", "StopIter", "Assertion", "Key", "Type", "Attr"}
Ret(v)       == [k |-> "ret", cls |-> "", v |-> v]
Raise(c, v)  == [k |-> "raise", cls |-> c, v |-> v]

FKey(f) == f             \* marker of a function (the library uses id(func))
OKey(o) == 100 + o       \* marker of an instance (the library uses id(instance))

Tasks == DOMAIN prog.drv
FN(f)  == prog.fn[f]
CON(c) == prog.con[c]
SNP(s) == prog.snp[s]
NoArgsCap(s) == "noargs" \in DOMAIN prog.snp[s] /\ prog.snp[s].noargs = 1
ClsOf(o)   == prog.obj[o].cls
InvAll(o)  == prog.cls[ClsOf(o)].inv
InvCall(o) == prog.cls[ClsOf(o)].oncall
InvSet(o)  == prog.cls[ClsOf(o)].onset
ReprFn(o)  == IF o = 0 THEN 0 ELSE prog.cls[ClsOf(o)].repr      \* the class's own __repr__ (0 = none)

Frame(k, u, f, o, a, lvl, sub) ==
  [k |-> k, u |-> u, f |-> f, o |-> o, a |-> a, lvl |-> lvl, pc |-> "enter", sub |-> sub,
   g |-> 1, i |-> 1, skip |-> FALSE, mk |-> FALSE, pos |-> 1, res |-> 0, exc |-> NoOut,
   old |-> <<>>, c |-> 0, fid |-> 0, ph |-> "", bad |-> FALSE]

NoEv == [e |-> "silent", t |-> 0, id |-> 0, o |-> 0, a |-> 0, v |-> 0, cls |-> "", old |-> <<>>, res |-> 0,
         ip |-> {}, ph |-> "", sk |-> FALSE]

View(t) == IF cv[t] = 0 THEN {} ELSE ips[cv[t]]

Ev(e, t, id, o, a, v, cls, old, res, ph, sk) ==
  [e |-> e, t |-> t, id |-> id, o |-> o, a |-> a, v |-> v, cls |-> cls, old |-> old, res |-> res,
   ip |-> View(t), ph |-> ph, sk |-> sk]

Len0(s) == Len(s)
Top(t)  == stack[t][Len(stack[t])]
Below(t) == SubSeq(stack[t], 1, Len(stack[t]) - 1)

-----------------------------------------------------------------------------
(* The declarative layer: what the properties demand, with no reference to  *)
(* wrappers, markers or schedules.                                          *)

TruthArg(c, a)   == CON(c).truth[a + 1]            \* pre/postconditions: function of the abstract argument
TruthSt(c, s)    == CON(c).truth[s + 1]            \* invariants: function of the abstract object state
GroupHolds(g, a) == \A i \in DOMAIN g : TruthArg(g[i], a)
EffPre(f, a)     == FN(f).pre = <<>> \/ \E g \in DOMAIN FN(f).pre : GroupHolds(FN(f).pre[g], a)
EffPost(f, a)    == \A j \in DOMAIN FN(f).post : TruthArg(FN(f).post[j], a)
FirstFalsy(seq, a) == seq[CHOOSE i \in DOMAIN seq : ~TruthArg(seq[i], a) /\ \A j \in 1..(i-1) : TruthArg(seq[j], a)]
PreCulprit(f, a)   == FirstFalsy(FN(f).pre[Len(FN(f).pre)], a)
ErrClsOf(c) == CASE CON(c).err = "default"    -> "Violation"
                 [] CON(c).err = "class"      -> "ErrClass"
                 [] CON(c).err = "inst"       -> "ErrInst"
                 [] CON(c).err = "factory"    -> "ErrFact"
                 [] CON(c).err = "badfactory" -> "TypeError"
ErrorOf(c)  == Raise(ErrClsOf(c), c)
ConsOfFn(f) == UNION {{FN(f).pre[g][i] : i \in DOMAIN FN(f).pre[g]} : g \in DOMAIN FN(f).pre}
               \cup {FN(f).post[j] : j \in DOMAIN FN(f).post}
FnOfCon(c)  == CHOOSE f \in DOMAIN prog.fn : c \in ConsOfFn(f)

(* The only calls that may go unchecked (C10): a function key is suspended   *)
(* while a non-re-entrant checker frame of that function further down the    *)
(* SAME task's stack is evaluating contracts (not while its body runs); an   *)
(* instance key while a non-re-entrant constructor / public-method wrapper   *)
(* frame of that instance is on the stack.                                   *)
ContractPc == {"pre", "snap", "post"}
ShouldSkipFn(st, f) ==
  \E n \in DOMAIN st : st[n].k = "chk" /\ st[n].f = f /\ ~st[n].skip /\ st[n].pc \in ContractPc
ShouldSkipObj(st, o) ==
  \E n \in DOMAIN st : st[n].k \in {"inv", "init"} /\ st[n].o = o /\ ~st[n].skip /\ st[n].pc # "enter"

-----------------------------------------------------------------------------
(* In-progress state (the ContextVar holding a mutable set).                *)

\* get-or-create + add
Mark(t, key) ==
  IF cv[t] = 0
    THEN /\ cv'  = [cv EXCEPT ![t] = t]
         /\ ips' = [ips EXCEPT ![t] = {key}]
    ELSE /\ cv'  = cv
         /\ ips' = [ips EXCEPT ![cv[t]] = @ \cup {key}]
\* get-or-create without adding (the wrappers create the set before testing membership)
Touch(t) ==
  IF cv[t] = 0
    THEN cv' = [cv EXCEPT ![t] = t] /\ ips' = [ips EXCEPT ![t] = {}]
    ELSE UNCHANGED <<cv, ips>>
Unmark(t, key) ==
  IF cv[t] = 0 THEN UNCHANGED <<cv, ips>>
  ELSE cv' = cv /\ ips' = [ips EXCEPT ![cv[t]] = @ \ {key}]

-----------------------------------------------------------------------------
(* Stack manipulation.  Every step of task t is one of these shapes.        *)

SetTop(t, fr)       == stack' = [stack EXCEPT ![t] = [@ EXCEPT ![Len(@)] = fr]]
PushOn(t, fr, new)  == stack' = [stack EXCEPT ![t] = Append([@ EXCEPT ![Len(@)] = fr], new)]
PopWith(t, out)     == /\ stack' = [stack EXCEPT ![t] = Below(t)]
                       /\ reg'   = [reg EXCEPT ![t] = out]

Silent   == emit' = NoEv /\ UNCHANGED log
Emit(ev) == emit' = ev /\ log' = Append(log, ev)

Unch_ip   == UNCHANGED <<cv, ips>>
Unch_misc == UNCHANGED <<prog, ost, status, nx, ns>>

IsFault(n)   == n > 0 /\ (prog.fault.at = n \/ \E j \in DOMAIN prog.fault.more : prog.fault.more[j] = n)

\* a call that passes the extra keyword argument result=... (through the callee's **kwargs)
IsBad(op) == "bad" \in DOMAIN op /\ op.bad = 1
BadKwId == -1

UsrFrame(u, id, o, a, role, n, owner) == [Frame("usr", u, id, o, a, 0, role) EXCEPT !.fid = n, !.g = owner]

\* "call the wrapped callable": next wrapper of the chain, or the body itself
CallInner(t, fr) ==
  LET ch == FN(fr.f).chain IN
  IF fr.lvl < Len(ch)
    THEN /\ PushOn(t, fr, [Frame(ch[fr.lvl + 1], "", fr.f, fr.o, fr.a, fr.lvl + 1, "") EXCEPT !.bad = fr.bad])
         /\ reg' = [reg EXCEPT ![t] = NoOut]
         /\ Silent /\ Unch_ip /\ Unch_misc
    ELSE /\ PushOn(t, fr, UsrFrame("body", fr.f, fr.o, fr.a, "", nx + 1, fr.f))
         /\ reg' = [reg EXCEPT ![t] = NoOut]
         /\ nx' = nx + 1
         /\ Emit(Ev("body.in", t, fr.f, fr.o, fr.a, 0, "", <<>>, 0, "body", fr.skip))
         /\ Unch_ip /\ UNCHANGED <<prog, ost, status, ns>>

\* leave a wrapper frame: remember the outcome, go to the exit pc (marker is restored there)
Leave(t, fr, out) ==
  /\ SetTop(t, [fr EXCEPT !.pc = "exit", !.exc = out, !.sub = "", !.ph = IF fr.pc = "bodycall" THEN "body" ELSE fr.pc])
  /\ reg' = [reg EXCEPT ![t] = NoOut]
  /\ Silent /\ Unch_ip /\ Unch_misc

Goto(t, fr) ==
  /\ SetTop(t, fr)
  /\ reg' = [reg EXCEPT ![t] = NoOut]
  /\ Silent /\ Unch_ip /\ Unch_misc

-----------------------------------------------------------------------------
(* Evaluating one condition and, if it is falsy, building its error         *)
(* (_create_violation_error).  Shared by the four phases "pre", "post",    *)
(* "before"/"after" (invariants).                                           *)

IsInvPhase(ph) == ph \in {"before", "after"}
RoleOf(ph) == IF IsInvPhase(ph) THEN "inv" ELSE ph

\* arguments visible to a condition / error factory
OldOf(fr, ph) == IF ph = "post" THEN fr.old ELSE <<>>
ResOf(fr, ph) == IF ph = "post" THEN fr.res ELSE 0
AOf(fr, ph)   == IF IsInvPhase(ph) THEN 0 ELSE fr.a        \* invariants see only the instance
OOf(fr)       == IF FN(fr.f).kind \in {"func", "static", "class", "new"} THEN 0 ELSE fr.o   \* no `self` parameter
OOfPh(fr, ph) == IF IsInvPhase(ph) THEN fr.o ELSE OOf(fr)

\* start evaluating contract c in phase ph (fr.sub = "")
EvalCond(t, fr, c, ph) ==
  IF ~FN(fr.f).async /\ CON(c).rv = "corofn" /\ ~IsInvPhase(ph)
    THEN \* coroutine-function condition on a sync callable: ValueError, the condition is not called
         Leave(t, fr, Raise("ValueError", c))
    ELSE /\ PushOn(t, [fr EXCEPT !.c = c, !.sub = "wait"], UsrFrame("cond", c, OOfPh(fr, ph), AOf(fr, ph), RoleOf(ph), nx + 1, fr.f))
         /\ reg' = [reg EXCEPT ![t] = NoOut]
         /\ nx' = nx + 1
         \* (a condition may leave OLD out of its parameters although the function has snapshots: noold)
         /\ Emit(Ev("cond.in", t, c, OOfPh(fr, ph), AOf(fr, ph), 0, "", IF CON(c).noold THEN <<>> ELSE OldOf(fr, ph),
                    ResOf(fr, ph), ph, FALSE))
         /\ Unch_ip /\ UNCHANGED <<prog, ost, status, ns>>

\* the error of contract fr.c is `err`: preconditions remember it and try the next group; the others raise it
ErrDone(t, fr, ph, err) ==
  IF ph = "pre"
    THEN Goto(t, [fr EXCEPT !.exc = err, !.g = fr.g + 1, !.i = 1, !.sub = ""])
    ELSE Leave(t, fr, err)

\* one step of the phase `ph` of frame fr whose current list of contracts is L (index fr.i)
\* `next` is the frame to continue with when the list is exhausted
CondPhase(t, fr, ph, L, next) ==
  LET r == reg[t] IN
  CASE fr.sub = "" ->
         IF fr.i > Len(L) THEN Goto(t, next)
         ELSE EvalCond(t, fr, L[fr.i], ph)
    [] fr.sub = "wait" ->
         \* the condition returned (or raised)
         IF r.k = "raise" THEN Leave(t, fr, r)
         ELSE IF r.v = 2 /\ (IsInvPhase(ph) \/ ~FN(fr.f).async)
           \* coroutine object on a sync callable; invariants are never awaited (asynchronous invariants are not
           \* supported), so a coroutine object is rejected there whatever the method is - never taken as truthy
           THEN Leave(t, fr, Raise("ValueError", fr.c))
         ELSE IF r.v = 3
           THEN Leave(t, fr, Raise("ValueErrorC", fr.c))      \* truth test of the result failed (chained)
         ELSE IF r.v = 5 /\ FN(fr.f).async /\ ~SwFutureNotAwaited
           THEN \* an awaitable (not a coroutine) whose awaiting raises: that very exception surfaces
                Leave(t, fr, Raise("Exception", 900 + fr.c))
         ELSE IF r.v = 4 /\ ~SwFutureNotAwaited /\ ~TruthArg(fr.c, fr.a)
           THEN Goto(t, [fr EXCEPT !.sub = "err"])              \* an awaitable result is awaited, then judged
         ELSE IF r.v # 0
           THEN Goto(t, [fr EXCEPT !.i = fr.i + 1, !.sub = ""])
         ELSE \* falsy: build the error
           Goto(t, [fr EXCEPT !.sub = "err"])
    [] fr.sub = "err" ->
         LET c == fr.c IN
         (CASE CON(c).err \in {"default", "class"} ->
                IF CON(c).lam /\ ~(ph = "post" /\ fr.res = 0)
                  THEN \* the message generator re-evaluates a lambda condition once (unless a name it uses is
                       \* bound to None, the re-evaluator's "unknown" marker: then the call is left out)
                       /\ PushOn(t, [fr EXCEPT !.sub = "reeval"], UsrFrame("cond", c, OOfPh(fr, ph), AOf(fr, ph), RoleOf(ph), nx + 1, fr.f))
                       /\ reg' = [reg EXCEPT ![t] = NoOut]
                       /\ nx' = nx + 1
                       /\ Emit(Ev("cond.in", t, c, OOfPh(fr, ph), AOf(fr, ph), 0, "", IF CON(c).noold THEN <<>> ELSE OldOf(fr, ph),
                                  ResOf(fr, ph), "reeval", FALSE))
                       /\ Unch_ip /\ UNCHANGED <<prog, ost, status, ns>>
                  ELSE Goto(t, [fr EXCEPT !.sub = "repr"])
           [] CON(c).err = "inst" -> ErrDone(t, fr, ph, ErrorOf(c))
           [] CON(c).err \in {"factory", "badfactory"} ->
                /\ PushOn(t, [fr EXCEPT !.sub = "fact"], UsrFrame("errf", c, OOfPh(fr, ph), AOf(fr, ph), RoleOf(ph), nx + 1, fr.f))
                /\ reg' = [reg EXCEPT ![t] = NoOut]
                /\ nx' = nx + 1
                /\ Emit(Ev("errf.in", t, c, OOfPh(fr, ph), AOf(fr, ph), 0, "", OldOf(fr, ph), ResOf(fr, ph), ph, FALSE))
                /\ Unch_ip /\ UNCHANGED <<prog, ost, status, ns>>)
    [] fr.sub = "reeval" ->
         IF r.k = "raise"
           THEN IF r.cls \in ExceptionKinds
                  THEN Leave(t, fr, Raise("RuntimeErrorC", fr.c))        \* "Failed to recompute", chained
                  ELSE Leave(t, fr, r)                                  \* BaseException passes through
           ELSE Goto(t, [fr EXCEPT !.sub = "repr"])
    [] fr.sub = "repr" ->
         \* the message lists the values of the arguments: an instance is shown through its own __repr__
         \* (user code, exempt from invariant checks)
         IF OOfPh(fr, ph) # 0 /\ ReprFn(fr.o) # 0
           THEN /\ PushOn(t, [fr EXCEPT !.sub = "reprwait"], UsrFrame("body", ReprFn(fr.o), fr.o, 0, "", nx + 1, ReprFn(fr.o)))
                /\ reg' = [reg EXCEPT ![t] = NoOut]
                /\ nx' = nx + 1
                /\ Emit(Ev("body.in", t, ReprFn(fr.o), fr.o, 0, 0, "", <<>>, 0, "repr", FALSE))
                /\ Unch_ip /\ UNCHANGED <<prog, ost, status, ns>>
           ELSE ErrDone(t, fr, ph, ErrorOf(fr.c))
    [] fr.sub = "reprwait" ->
         \* reprlib absorbs an Exception raised by __repr__; anything else passes through
         IF r.k = "raise" /\ r.cls \notin ExceptionKinds THEN Leave(t, fr, r)
         ELSE ErrDone(t, fr, ph, ErrorOf(fr.c))
    [] fr.sub = "fact" ->
         IF r.k = "raise" THEN Leave(t, fr, r)
         ELSE IF r.v = 0 THEN Leave(t, fr, Raise("TypeError", fr.c))     \* the factory returned a non-exception
         ELSE ErrDone(t, fr, ph, ErrorOf(fr.c))

-----------------------------------------------------------------------------
(* The checker wrapper (decorate_with_checker).                             *)

ChkStep(t) ==
  LET fr == Top(t)
      f  == fr.f
      r  == reg[t]
      P  == FN(f).pre
  IN
  CASE fr.pc = "enter" ->
         IF FKey(f) \in View(t)
           THEN \* re-entrant call: bare call of the function
                /\ SetTop(t, [fr EXCEPT !.skip = TRUE, !.pc = "bodycall"])
                /\ Touch(t) /\ reg' = [reg EXCEPT ![t] = NoOut] /\ Silent /\ Unch_misc
           ELSE /\ SetTop(t, [fr EXCEPT !.mk = TRUE, !.pc = "pre"])
                /\ Mark(t, FKey(f)) /\ reg' = [reg EXCEPT ![t] = NoOut] /\ Silent /\ Unch_misc
    [] fr.pc = "pre" ->
         IF fr.bad /\ FN(f).post # <<>>
           THEN \* the call passes a keyword named like a reserved name of postconditions (result): rejected after the
                \* marker was set and before any condition runs; the marker is restored at the exit like always
                Leave(t, fr, Raise("TypeError", BadKwId))
         ELSE IF fr.sub = "" /\ fr.g > Len(P)
           THEN \* no group left: no preconditions at all, or the last group failed
                IF fr.exc.k = "none" THEN Goto(t, [fr EXCEPT !.pc = "snap", !.i = 1])
                ELSE Leave(t, fr, fr.exc)
         ELSE IF fr.sub = "" /\ fr.i > Len(P[fr.g])
           THEN \* group satisfied
                Goto(t, [fr EXCEPT !.pc = "snap", !.i = 1, !.exc = NoOut])
         ELSE CondPhase(t, fr, "pre", P[fr.g], fr)
    [] fr.pc = "snap" ->
         LET S == FN(f).snap IN
         IF FN(f).post = <<>> \/ fr.i > Len(S)
           THEN Goto(t, [fr EXCEPT !.pc = "body", !.sub = ""])
         ELSE IF fr.sub = ""
           THEN IF ~FN(f).async /\ SNP(S[fr.i]).rv = "corofn"
                  THEN Leave(t, fr, Raise("ValueError", S[fr.i]))
                  ELSE \* (a capture without parameters receives nothing of the call; it is still evaluated at every call)
                       LET co == IF NoArgsCap(S[fr.i]) THEN 0 ELSE OOf(fr)
                           ca == IF NoArgsCap(S[fr.i]) THEN 0 ELSE fr.a IN
                       /\ PushOn(t, [fr EXCEPT !.sub = "wait"], UsrFrame("cap", S[fr.i], co, ca, "", nx + 1, fr.f))
                       /\ reg' = [reg EXCEPT ![t] = NoOut]
                       /\ nx' = nx + 1
                       /\ Emit(Ev("cap.in", t, S[fr.i], co, ca, 0, "", <<>>, 0, "snap", FALSE))
                       /\ Unch_ip /\ UNCHANGED <<prog, ost, status, ns>>
         ELSE \* capture returned
              IF r.k = "raise" THEN Leave(t, fr, r)
              ELSE IF r.v = 2 /\ ~FN(f).async THEN Leave(t, fr, Raise("ValueError", S[fr.i]))
              ELSE Goto(t, [fr EXCEPT !.old = Append(fr.old, r.v), !.i = fr.i + 1, !.sub = ""])
    [] fr.pc = "body" ->
         \* contracts are not being evaluated while the body runs
         /\ SetTop(t, [fr EXCEPT !.pc = "bodycall"])
         /\ IF SwHoldDuringBody THEN Unch_ip ELSE Unmark(t, FKey(f))
         /\ reg' = [reg EXCEPT ![t] = NoOut] /\ Silent /\ Unch_misc
    [] fr.pc = "bodycall" ->
         IF r.k = "none" THEN CallInner(t, fr)
         ELSE IF fr.skip \/ r.k = "raise" THEN Leave(t, fr, r)
         ELSE IF FN(f).post = <<>> THEN Leave(t, fr, r)
         ELSE /\ SetTop(t, [fr EXCEPT !.pc = "post", !.res = r.v, !.i = 1, !.sub = ""])
              /\ IF SwHoldDuringBody THEN Unch_ip ELSE Mark(t, FKey(f))
              /\ reg' = [reg EXCEPT ![t] = NoOut] /\ Silent /\ Unch_misc
    [] fr.pc = "post" ->
         CondPhase(t, fr, "post", FN(f).post, [fr EXCEPT !.pc = "exit", !.exc = Ret(fr.res), !.sub = ""])
    [] fr.pc = "exit" ->
         /\ PopWith(t, fr.exc)
         /\ IF fr.mk \/ (SwReentryDiscards /\ fr.skip) THEN Unmark(t, FKey(f)) ELSE Unch_ip
         /\ Silent /\ Unch_misc

-----------------------------------------------------------------------------
(* The invariant wrapper around a public method / property accessor /       *)
(* dunder (_decorate_with_invariants, is_init = False).                     *)

InvStep(t) ==
  LET fr == Top(t)
      o  == fr.o
      r  == reg[t]
      L  == IF FN(fr.f).setattr THEN InvSet(o) ELSE InvCall(o)
  IN
  CASE fr.pc = "enter" ->
         IF OKey(o) \in View(t)
           THEN /\ SetTop(t, [fr EXCEPT !.skip = TRUE, !.pc = "bodycall"])
                /\ Touch(t) /\ reg' = [reg EXCEPT ![t] = NoOut] /\ Silent /\ Unch_misc
           ELSE /\ SetTop(t, [fr EXCEPT !.mk = TRUE, !.pc = "before", !.i = 1])
                /\ Mark(t, OKey(o)) /\ reg' = [reg EXCEPT ![t] = NoOut] /\ Silent /\ Unch_misc
    [] fr.pc = "before" ->
         CondPhase(t, fr, "before", L, [fr EXCEPT !.pc = "bodycall", !.sub = ""])
    [] fr.pc = "bodycall" ->
         IF r.k = "none" THEN CallInner(t, fr)
         ELSE IF fr.skip \/ r.k = "raise" THEN Leave(t, fr, r)
         ELSE Goto(t, [fr EXCEPT !.pc = "after", !.res = r.v, !.i = 1, !.sub = ""])
    [] fr.pc = "after" ->
         CondPhase(t, fr, "after", L, [fr EXCEPT !.pc = "exit", !.exc = Ret(fr.res), !.sub = ""])
    [] fr.pc = "exit" ->
         /\ PopWith(t, fr.exc)
         /\ IF fr.mk THEN Unmark(t, OKey(o)) ELSE Unch_ip
         /\ Silent /\ Unch_misc

(* The constructor wrapper (_decorate_with_invariants, is_init = True).     *)
InitStep(t) ==
  LET fr == Top(t)
      o  == fr.o
      r  == reg[t]
  IN
  CASE fr.pc = "enter" ->
         IF ~SwInitNested /\ OKey(o) \in View(t)
           THEN \* a constructor of this very instance is already running further down: bare call
                /\ SetTop(t, [fr EXCEPT !.skip = TRUE, !.pc = "bodycall"])
                /\ Touch(t) /\ reg' = [reg EXCEPT ![t] = NoOut] /\ Silent /\ Unch_misc
           ELSE /\ SetTop(t, [fr EXCEPT !.mk = TRUE, !.pc = "bodycall"])
                /\ Mark(t, OKey(o)) /\ reg' = [reg EXCEPT ![t] = NoOut] /\ Silent /\ Unch_misc
    [] fr.pc = "bodycall" ->
         IF r.k = "none" THEN CallInner(t, fr)
         ELSE IF fr.skip \/ r.k = "raise" THEN Leave(t, fr, r)
         ELSE Goto(t, [fr EXCEPT !.pc = "after", !.res = r.v, !.i = 1, !.sub = ""])
    [] fr.pc = "after" ->
         CondPhase(t, fr, "after", InvAll(o), [fr EXCEPT !.pc = "exit", !.exc = Ret(fr.res), !.sub = ""])
    [] fr.pc = "exit" ->
         /\ PopWith(t, fr.exc)
         /\ IF fr.mk THEN Unmark(t, OKey(o)) ELSE Unch_ip
         /\ Silent /\ Unch_misc

(* The __new__ wrapper (_decorate_new_with_invariants): classes without an  *)
(* __init__ of their own (named tuples).                                    *)
NewStep(t) ==
  LET fr == Top(t)
      o  == fr.o
      r  == reg[t]
  IN
  CASE fr.pc = "enter" -> Goto(t, [fr EXCEPT !.pc = "bodycall"])
    [] fr.pc = "bodycall" ->
         IF r.k = "none" THEN CallInner(t, fr)
         ELSE IF r.k = "raise" THEN Leave(t, fr, r)
         ELSE \* the instance is NOT marked: a public method called by an invariant is checked by its own
              \* wrapper (which marks), so the evaluation terminates; the property permits checking more
              Goto(t, [fr EXCEPT !.pc = "after", !.res = r.v, !.i = 1, !.sub = ""])
    [] fr.pc = "after" ->
         CondPhase(t, fr, "after", InvAll(o), [fr EXCEPT !.pc = "exit", !.exc = Ret(fr.res), !.sub = ""])
    [] fr.pc = "exit" ->
         /\ PopWith(t, fr.exc)
         /\ IF fr.mk THEN Unmark(t, OKey(o)) ELSE Unch_ip
         /\ Silent /\ Unch_misc

(* A call in flight (the attribute lookup + call expression in user code):  *)
(* enters the outermost wrapper and hands the outcome back unchanged.       *)
CallStep(t) ==
  LET fr == Top(t) r == reg[t] IN
  IF r.k = "none" THEN CallInner(t, [fr EXCEPT !.pc = "wait"])
  ELSE /\ PopWith(t, r) /\ Silent /\ Unch_ip /\ Unch_misc

-----------------------------------------------------------------------------
(* User code: a frame that runs a script of operations and then produces    *)
(* the value the oracle prescribes.                                         *)

ScriptOf(fr) ==
  CASE fr.u = "drv"  -> prog.drv[fr.f]
    [] fr.u = "body" -> FN(fr.f).script
    [] fr.u = "cond" -> CON(fr.f).script
    [] fr.u = "errf" -> CON(fr.f).escript
    [] fr.u = "cap"  -> SNP(fr.f).script

OutName(fr) == CASE fr.u = "body" -> "body.out" [] fr.u = "cond" -> "cond.out"
                 [] fr.u = "errf" -> "errf.out" [] fr.u = "cap" -> "cap.out" [] fr.u = "drv" -> "end"

\* the value a user callable produces when its script is finished
Produce(fr) ==
  CASE fr.u = "body" -> FN(fr.f).out[fr.a + 1]
    [] fr.u = "cond" ->
         \* (raises: the condition cannot be evaluated for this call - it is only defined when an earlier one holds)
         IF CON(fr.f).rv = "raises" THEN Raise("Exception", 900 + fr.f) ELSE
         IF CON(fr.f).rv = "coro" /\ (fr.sub = "inv" \/ ~FN(fr.g).async) THEN Ret(2) ELSE
         IF CON(fr.f).rv = "badbool" THEN Ret(3) ELSE
         IF CON(fr.f).rv = "future" THEN Ret(4) ELSE
         IF CON(fr.f).rv = "futureraise" THEN Ret(5) ELSE
         IF fr.sub = "inv" THEN Ret(IF TruthSt(fr.f, ost[fr.o]) THEN 1 ELSE 0)
         ELSE Ret(IF TruthArg(fr.f, fr.a) THEN 1 ELSE 0)
    [] fr.u = "errf" -> Ret(IF CON(fr.f).err = "factory" THEN 1 ELSE 0)
    [] fr.u = "cap"  -> IF SNP(fr.f).rv = "coro" /\ ~FN(fr.g).async THEN Ret(2)
                        \* (byarg: the captured value depends on the argument of the call, so that the captures of
                        \*  overlapping calls of the same callable can be told apart)
                        ELSE Ret(SNP(fr.f).val + (IF "byarg" \in DOMAIN SNP(fr.f) /\ SNP(fr.f).byarg = 1 THEN fr.a ELSE 0))
    [] fr.u = "drv"  -> Ret(0)

UsrStep(t) ==
  LET fr == Top(t)
      r  == reg[t]
      sc == ScriptOf(fr)
      role == fr.sub
  IN
  IF r.k # "none" THEN
       \* a call made by this code returned: log what it got; exceptions propagate (the driver swallows them)
       /\ IF r.k = "raise" /\ fr.u # "drv"
            THEN SetTop(t, [fr EXCEPT !.pc = "raise", !.exc = r])
            ELSE SetTop(t, fr)
       /\ reg' = [reg EXCEPT ![t] = NoOut]
       /\ Emit(Ev("ret", t, fr.c, 0, 0, r.v, IF r.k = "ret" THEN "ret" ELSE r.cls, <<>>, 0, fr.u, FALSE))
       /\ Unch_ip /\ Unch_misc
  ELSE IF fr.pc = "resumed" THEN
       \* control came back from a suspension point by way of an exception (cancel / close)
       /\ PopWith(t, fr.exc)
       /\ Emit(Ev(OutName(fr), t, fr.f, fr.o, fr.a, fr.exc.v, fr.exc.cls, <<>>, 0, role, FALSE))
       /\ Unch_ip /\ Unch_misc
  ELSE IF fr.pc = "raise" THEN
       /\ PopWith(t, fr.exc)
       /\ Emit(Ev(OutName(fr), t, fr.f, fr.o, fr.a, fr.exc.v, fr.exc.cls, <<>>, 0, role, FALSE))
       /\ Unch_ip /\ Unch_misc
  ELSE IF fr.u # "drv" /\ IsFault(fr.fid) /\ fr.pos = 1 /\ fr.pc = "enter" THEN
       \* injected fault: this activation of user code raises at once
       /\ PopWith(t, Raise(prog.fault.kind, fr.fid))
       /\ Emit(Ev(OutName(fr), t, fr.f, fr.o, fr.a, fr.fid, prog.fault.kind, <<>>, 0, role, FALSE))
       /\ Unch_ip /\ Unch_misc
  ELSE IF fr.pos <= Len(sc) THEN
       LET op == sc[fr.pos] nfr == [fr EXCEPT !.pos = fr.pos + 1, !.pc = "run", !.c = op.f] IN
       CASE op.when \notin {0, fr.a} ->
              \* an operation guarded by the argument of this activation: not taken
              /\ SetTop(t, [fr EXCEPT !.pos = fr.pos + 1, !.pc = "run"])
              /\ reg' = [reg EXCEPT ![t] = NoOut] /\ Silent /\ Unch_ip /\ Unch_misc
         [] op.when \in {0, fr.a} /\ op.op = "call" ->
              \* op.o = -1: the instance this user code was called with ("self")
              /\ PushOn(t, nfr, [Frame("call", "", op.f, IF op.o = -1 THEN fr.o ELSE op.o, op.a, 0, "")
                                    EXCEPT !.bad = IsBad(op)])
              /\ reg' = [reg EXCEPT ![t] = NoOut]
              /\ Emit(Ev("call", t, op.f, IF op.o = -1 THEN fr.o ELSE op.o, op.a, IF IsBad(op) THEN 1 ELSE 0, "", <<>>, 0, fr.u, FALSE))
              /\ Unch_ip /\ Unch_misc
         [] op.when \in {0, fr.a} /\ op.op = "await" ->
              /\ SetTop(t, [nfr EXCEPT !.pc = IF prog.fault.at = -1 /\ prog.fault.n = ns + 1 THEN "susp!" ELSE "run"])
              /\ reg' = [reg EXCEPT ![t] = NoOut]
              /\ status' = [status EXCEPT ![t] = "susp"]
              /\ ns' = ns + 1
              /\ Emit(Ev("susp", t, 0, 0, 0, 0, "", <<>>, 0, fr.u, FALSE))
              /\ Unch_ip /\ UNCHANGED <<prog, ost, nx>>
         [] op.when \in {0, fr.a} /\ op.op = "spawn" ->
              \* start task op.f; op.a = 1: its context is a copy of this task's context, 0: a fresh context
              /\ stack' = [stack EXCEPT ![t] = [@ EXCEPT ![Len(@)] = nfr],
                                        ![op.f] = <<UsrFrame("drv", op.f, 0, 0, "", 0, 0)>>]
              /\ reg' = [reg EXCEPT ![t] = NoOut]
              /\ status' = [status EXCEPT ![op.f] = "ready"]
              /\ cv' = [cv EXCEPT ![op.f] = IF op.a = 1 /\ SwShareSet THEN cv[t] ELSE 0]
              /\ UNCHANGED ips
              /\ Emit(Ev("spawn", t, op.f, 0, op.a, 0, "", <<>>, 0, fr.u, FALSE))
              /\ UNCHANGED <<prog, ost, nx, ns>>
  ELSE
       \* script finished: produce the value; a body may change the state of its object
       LET out == Produce(fr) IN
       /\ IF fr.u = "drv"
            THEN /\ stack' = [stack EXCEPT ![t] = <<>>]
                 /\ reg' = [reg EXCEPT ![t] = NoOut]
                 /\ status' = [status EXCEPT ![t] = "done"]
            ELSE /\ PopWith(t, out) /\ UNCHANGED status
       /\ ost' = IF fr.u = "body" /\ fr.o > 0 /\ FN(fr.f).setst > 0
                   THEN [ost EXCEPT ![fr.o] = FN(fr.f).setst] ELSE ost
       /\ Emit(Ev(OutName(fr), t, fr.f, fr.o, fr.a, out.v, IF out.k = "ret" THEN "ret" ELSE out.cls, <<>>, 0, role, FALSE))
       /\ Unch_ip /\ UNCHANGED <<prog, nx, ns>>

-----------------------------------------------------------------------------
TaskStep(t) ==
  LET k == Top(t).k IN
  CASE k = "usr"  -> UsrStep(t)
    [] k = "call" -> CallStep(t)
    [] k = "chk"  -> ChkStep(t)
    [] k = "inv"  -> InvStep(t)
    [] k = "init" -> InitStep(t)
    [] k = "new"  -> NewStep(t)

\* the scheduler resumes / cancels / closes a suspended task
Resume(t) ==
  /\ status[t] = "susp"
  /\ status' = [status EXCEPT ![t] = "ready"]
  /\ Emit(Ev("res", t, 0, 0, 0, 0, "", <<>>, 0, "", FALSE))
  /\ UNCHANGED <<prog, stack, reg, cv, ips, ost, nx, ns>>

Throw(t, kind) ==
  /\ status[t] = "susp"
  /\ status' = [status EXCEPT ![t] = "ready"]
  /\ SetTop(t, [Top(t) EXCEPT !.pc = "resumed", !.exc = Raise(kind, 0)])
  /\ Emit(Ev("throw", t, 0, 0, 0, 0, kind, <<>>, 0, "", FALSE))
  /\ UNCHANGED <<prog, reg, cv, ips, ost, nx, ns>>

Step(t) ==
  /\ status[t] = "ready" /\ busy \in {0, t}
  /\ TaskStep(t)
  /\ busy' = IF emit'.e = "silent" \/ (AsyncSched /\ status'[t] = "ready") THEN t ELSE 0

\* the k-th suspension (k = prog.fault.n) is answered by throwing prog.fault.kind into the task
\* (cancellation / close) if the fault plan says so (at = -1); every other one is resumed
Sched(t) ==
  /\ busy = 0 /\ status[t] = "susp"
  /\ IF prog.fault.at = -1 /\ Top(t).pc = "susp!" THEN Throw(t, prog.fault.kind) ELSE Resume(t)
  /\ busy' = IF AsyncSched THEN t ELSE 0

Next == \E t \in Tasks : Step(t) \/ Sched(t)

InitOf(p) ==
  /\ prog = p
  /\ stack = [t \in DOMAIN p.drv |-> IF t = 1 THEN <<UsrFrame("drv", 1, 0, 0, "", 0, 0)>> ELSE <<>>]
  /\ reg = [t \in DOMAIN p.drv |-> NoOut]
  /\ status = [t \in DOMAIN p.drv |-> IF t = 1 THEN "ready" ELSE "idle"]
  /\ cv = [t \in DOMAIN p.drv |-> 0]
  /\ ips = [t \in DOMAIN p.drv |-> {}]
  /\ ost = [o \in DOMAIN p.obj |-> p.obj[o].st0]
  /\ busy = 0
  /\ nx = 0
  /\ ns = 0
  /\ emit = NoEv
  /\ log = <<>>

\* the same, as an action (the trace specification validates many programs in one run)
InitNext(p) ==
  /\ prog' = p
  /\ stack' = [t \in DOMAIN p.drv |-> IF t = 1 THEN <<UsrFrame("drv", 1, 0, 0, "", 0, 0)>> ELSE <<>>]
  /\ reg' = [t \in DOMAIN p.drv |-> NoOut]
  /\ status' = [t \in DOMAIN p.drv |-> IF t = 1 THEN "ready" ELSE "idle"]
  /\ cv' = [t \in DOMAIN p.drv |-> 0]
  /\ ips' = [t \in DOMAIN p.drv |-> {}]
  /\ ost' = [o \in DOMAIN p.obj |-> p.obj[o].st0]
  /\ busy' = 0 /\ nx' = 0 /\ ns' = 0 /\ emit' = NoEv /\ log' = <<>>

Init == \E p \in ProgSpace : InitOf(p)

Spec == Init /\ [][Next]_vars

AllDone == \A t \in Tasks : status[t] \in {"idle", "done"}
=============================================================================
