------------------------------- MODULE MC_Msg -------------------------------
EXTENDS ICMsg, Json, IOUtils
MCMsgSpace == LET cs == ndJsonDeserialize(IOEnv.MSGCASES) IN {cs[i] : i \in DOMAIN cs}
PrintExpected == PrintT(ToJson(Expected))
=============================================================================
