------------------------------- MODULE MC_Def -------------------------------
EXTENDS ICDefineProps, Json, IOUtils

MCHistSpace == LET hs == ndJsonDeserialize(IOEnv.HISTS) IN {hs[i] : i \in DOMAIN hs}

\* after each class statement: print what every class created so far shows (replayed on the implementation)
ViewOf(k) == IF cl[k].ok THEN ClassView(cl, fo, lst, k) ELSE [inv |-> <<>>, oncall |-> <<>>, onset |-> <<>>, members |-> [n \in {} |-> 0]]
\* after every post-hoc decoration: the same projection, numbered after the class statements
PrintPostHoc ==
  (pc \in {"posthoc", "done"} /\ hist.posthoc # <<>> /\ di > 1) =>
     PrintT(ToJson([hid |-> hist.hid, step |-> Len(hist.cls) + di - 1, res |-> "ok",
                    views |-> [k \in 1..step |-> ViewOf(k)], regd |-> regd,
                    lids |-> [k \in 1..step |-> IF cl[k].ok THEN [name \in Names |-> MemberListIds(cl, fo, lst, k, name)]
                                                          ELSE [name \in Names |-> <<>>]],
                    alias |-> [k \in 1..step |-> <<InvListOf(cl, k, "inv"), InvListOf(cl, k, "oncall"), InvListOf(cl, k, "onset")>>]]))
PrintStep ==
  (pc = "next") => PrintT(ToJson([hid |-> hist.hid, step |-> step, res |-> res[step],
                                  views |-> [k \in 1..step |-> ViewOf(k)], regd |-> regd,
                                  lids |-> [k \in 1..step |-> IF cl[k].ok THEN [name \in Names |-> MemberListIds(cl, fo, lst, k, name)]
                                                                        ELSE [name \in Names |-> <<>>]],
                                  alias |-> [k \in 1..step |-> <<InvListOf(cl, k, "inv"), InvListOf(cl, k, "oncall"), InvListOf(cl, k, "onset")>>]]))
=============================================================================
