------------------------------- MODULE MC_Gen -------------------------------
(* Model-checking instance of ICCall over a family of programs read from a  *)
(* file (one JSON record per line, environment variable PROGS).  Every      *)
(* behaviour is checked against the invariants of ICCallProps; each         *)
(* terminated behaviour is printed (program id + event log) so that it can  *)
(* be replayed on the implementation.                                       *)
EXTENDS ICCallProps, Json, IOUtils

\* (LET: the file is read once, not once per program)
MCProgSpace == LET ps == ndJsonDeserialize(IOEnv.PROGS) IN {ps[i] : i \in DOMAIN ps}

Compact(ev) == <<ev.e, ev.t, ev.id, ev.o, ev.a, ev.v, ev.cls, ev.old, ev.res, ev.ip>>
PrintDone == AllDone => PrintT(ToJson([pid |-> prog.pid, log |-> [n \in DOMAIN log |-> Compact(log[n])]]))

\* exhaustive exploration of interleavings: the event history is observation only
NoLogView == <<prog, stack, reg, status, cv, ips, ost, busy, nx, ns, emit>>

\* bound on the depth of any behaviour (a runaway recursion in the model shows up as a violation of Bounded)
MaxDepth == 2000
DepthOK == TLCGet("level") < MaxDepth
=============================================================================
