------------------------------- MODULE ICExpr -------------------------------
(***************************************************************************)
(* Violation messages (C06, C07, C20).                                     *)
(*                                                                         *)
(* Eval      : Python's evaluation of a condition expression, with its     *)
(*             short-circuit rules: the value (or exception) of every node *)
(*             and the set of nodes Python actually evaluates.             *)
(* Recompute : the library's re-evaluator (icontract/_recompute.py,        *)
(*             Visitor) transcribed: which nodes it touches, which value   *)
(*             it assigns to each, where it gives up (placeholder) or      *)
(*             fails.                                                      *)
(* Shown     : the nodes whose "<text> was <value>" line the message lists *)
(*             (icontract/_represent.py, Visitor).                         *)
(*                                                                         *)
(* An expression is a prefix-encoded sequence of nodes [k, a]; values are  *)
(* uniform tagged records [t, n, s] (TLC cannot compare values of          *)
(* different sorts).  Every <<expression, environment>> is one state.      *)
(***************************************************************************)
EXTENDS Naturals, Integers, Sequences, FiniteSets, TLC

CONSTANTS CaseSpace,      \* set of [cid, expr, env] records explored by Init
          SwEagerBool,    \* F10: and/or and comparison chains evaluate all operands before combining
          SwOrSeedTrue,   \* F9: `or` is folded starting from True
          SwAllFailLeaks, \* F19: the counterexample object of a failed all(<generator>) is handed to the enclosing
                          \*      expression instead of the value False
          SwFStringOpaque, \* F34 (known, not repaired): a formatted string literal is shown as a whole; the names /
                          \*      attributes / calls it interpolates get no lines of their own
          SwLastOperandTruth, \* F32: the re-evaluator tests the truth value of the last operand of and/or
          SwNoStarred,    \* F21: a starred argument of a call (f(*xs)) cannot be re-computed at all
          SwCompTargetLeaks \* F22: the loop variable of a comprehension that shadows a variable of the condition is
                          \*      recorded (as the internal placeholder) and replaces the line of the shadowed variable

VARIABLES case
evars == <<case>>

-----------------------------------------------------------------------------
(* Values                                                                    *)
VInt(n)   == [t |-> "int", n |-> n, s |-> <<>>]
VBool(b)  == [t |-> "bool", n |-> IF b THEN 1 ELSE 0, s |-> <<>>]
VNone     == [t |-> "none", n |-> 0, s |-> <<>>]
VList(s)  == [t |-> "list", n |-> 0, s |-> s]
VObj(n)   == [t |-> "obj", n |-> n, s |-> <<>>]          \* an object whose attribute v is the integer n
NoneElem  == 0 - 9                                        \* a list element that is None
VElem(n)  == IF n = NoneElem THEN VNone ELSE VInt(n)
\* the first falsifying element of a failed all(<generator>): shown as "was False, e.g., with e = <element>"
VAllFail(n) == [t |-> "allfail", n |-> n, s |-> <<>>]
\* a class object (the result of type(..)): 1 int, 2 bool, 3 NoneType, 4 list, 5 the harness's Obj class
VCls(n)   == [t |-> "cls", n |-> n, s |-> <<>>]
ClsOfVal(v) == CASE v.t = "int" -> 1 [] v.t = "bool" -> 2 [] v.t = "none" -> 3 [] v.t = "list" -> 4 [] v.t = "obj" -> 5
                 [] v.t = "cls" -> 6 [] v.t = "amb" -> 7 [] v.t = "fmt" -> 8
\* the string f"{v}", i.e. format(v, ""): identified by the value it was made from (a class may format differently from
\* what str() gives: the harness's objects do)
VFmt(v) == [t |-> "fmt", n |-> v.n, s |-> <<ClsOfVal(v)>> \o v.s]
\* an object whose truth value is AMBIGUOUS (bool(v) raises, as for a numpy array): Python tests the truth of an operand
\* of and/or only if it is not the last one, of `not`, of the test of a conditional expression
VAmb == [t |-> "amb", n |-> 0, s |-> <<>>]
TruthOK(v) == v.t # "amb"
VNumeric(v) == v.t \in {"int", "bool"}
Truthy(v) == CASE v.t = "int" -> v.n # 0 [] v.t = "bool" -> v.n = 1 [] v.t = "none" -> FALSE
               [] v.t = "list" -> v.s # <<>> [] v.t = "obj" -> TRUE [] v.t = "allfail" -> FALSE [] v.t = "cls" -> TRUE
               [] v.t = "amb" -> TRUE      \* (never consulted: every use is guarded by TruthOK)
               [] v.t = "fmt" -> TRUE      \* (no value of the domain formats to the empty string)
\* Python equality
PyEq(a, b) == IF VNumeric(a) /\ VNumeric(b) THEN a.n = b.n
              ELSE IF a.t = "list" /\ b.t = "list" THEN a.s = b.s
              ELSE IF a.t = "none" /\ b.t = "none" THEN TRUE
              ELSE IF a.t = "obj" /\ b.t = "obj" THEN a.n = b.n     \* same object (one object per attribute value)
              ELSE IF a.t = "cls" /\ b.t = "cls" THEN a.n = b.n
              ELSE IF a.t = "fmt" /\ b.t = "fmt" THEN a = b
              ELSE IF a.t = "amb" /\ b.t = "amb" THEN TRUE          \* the one ambiguous object of a case
              ELSE FALSE

Arity(k) == CASE k \in {"int", "none", "true", "false", "name"} -> 0
              [] k \in {"not", "neg", "ident", "len", "first", "attr", "isnone", "all_gt", "all_pos", "sum_star", "comp", "typeof", "fstr"} -> 1
              [] k \in {"add", "floordiv", "and", "or", "lt", "eq", "in", "star_then", "pairlen", "all_nest"} -> 2
              [] k \in {"ifexp", "lt2", "and3", "or3"} -> 3

Expr == case.expr
\* (name 5 is a variable of the condition named like a builtin - `id` - and bound to None)
Env(i) == case.env[i]

\* position just after the subtree that starts at p
RECURSIVE EndOf(_)
EndOf(p) ==
  LET k == Expr[p].k IN
  CASE Arity(k) = 0 -> p + 1
    [] Arity(k) = 1 -> EndOf(p + 1)
    [] Arity(k) = 2 -> EndOf(EndOf(p + 1))
    [] Arity(k) = 3 -> EndOf(EndOf(EndOf(p + 1)))
Child1(p) == p + 1
Child2(p) == EndOf(p + 1)
Child3(p) == EndOf(EndOf(p + 1))
RECURSIVE Positions(_)
Positions(p) ==                       \* all node positions of the subtree at p
  LET k == Expr[p].k IN
  {p} \cup (IF Arity(k) >= 1 THEN Positions(Child1(p)) ELSE {})
      \cup (IF Arity(k) >= 2 THEN Positions(Child2(p)) ELSE {})
      \cup (IF Arity(k) >= 3 THEN Positions(Child3(p)) ELSE {})

-----------------------------------------------------------------------------
(* Primitive operations shared by Python and by the re-evaluator (both run  *)
(* the same Python operators on the operand values).  Result: [st, v].     *)

Ok(v)   == [st |-> "ok", v |-> v]
Exc(nm) == [st |-> "exc", v |-> [t |-> "exc", n |-> 0, s |-> <<>>]]
\* comparison of two lists as Python does it: the first position where the elements differ decides; comparing
\* None with a number there is a TypeError
FirstDiff(s, r) == IF \E i \in 1..Len(s) : i <= Len(r) /\ s[i] # r[i]
                   THEN CHOOSE i \in 1..Len(s) : i <= Len(r) /\ s[i] # r[i] /\ \A j \in 1..(i - 1) : s[j] = r[j]
                   ELSE 0
ListLess(s, r) == LET i == FirstDiff(s, r) IN
                  IF i = 0 THEN Ok(VBool(Len(s) < Len(r)))
                  ELSE IF s[i] = NoneElem \/ r[i] = NoneElem THEN Exc("TypeError")
                  ELSE Ok(VBool(s[i] < r[i]))

\* all(<elt> for e in xs <filters>): [st, v] where v is TRUE or the first falsifying element
\*   all_gt  : all(e > K for e in xs)
\*   all_pos : all(10 // e > K for e in xs if e is not None if e > 0)
RECURSIVE AllWalk(_, _, _, _)
AllWalk(k, K, xs, i) ==
  IF i > Len(xs) THEN Ok(VBool(TRUE))
  ELSE LET e == xs[i] IN
       IF k = "all_gt"
         THEN IF e = NoneElem THEN Exc("TypeError")
              ELSE IF e > K THEN AllWalk(k, K, xs, i + 1) ELSE Ok(VAllFail(e))
         ELSE IF e = NoneElem \/ ~(e > 0) THEN AllWalk(k, K, xs, i + 1)          \* filtered out
              ELSE IF (10 \div e) > K THEN AllWalk(k, K, xs, i + 1) ELSE Ok(VAllFail(e))
\*   sum_star : digits(*<c>)        the operand is unpacked into the call of an order-sensitive function
\*   star_then: digits(*<a>, <b>)   (binary) a plain positional argument AFTER a starred one
\*   pairlen  : len([<a>, <b>])     (binary) a list display: its elements are evaluated, never compared
\*   comp     : [x for x in <c>]    a list comprehension whose loop variable is called like the argument x
\* digits(*v): an ORDER-SENSITIVE function of its positional arguments (((v1 * 10) + v2) * 10 + ...)
RECURSIVE Digits(_, _, _)
Digits(s, i, acc) == IF i > Len(s) THEN acc ELSE Digits(s, i + 1, acc * 10 + s[i])
HasNoneElem(s) == \E i \in DOMAIN s : s[i] = NoneElem
Unary(k, v) ==
  CASE k = "not" -> IF TruthOK(v) THEN Ok(VBool(~Truthy(v))) ELSE Exc("TypeError")
    [] k = "sum_star" -> IF v.t # "list" THEN Exc("TypeError")
                         ELSE IF HasNoneElem(v.s) THEN Exc("TypeError")
                         ELSE Ok(VInt(Digits(v.s, 1, 0)))
    [] k = "comp" -> IF v.t = "list" THEN Ok(v) ELSE Exc("TypeError")
    [] k = "typeof" -> Ok(VCls(ClsOfVal(v)))      \* type(<c>): a call whose result is a class object
    [] k = "fstr" -> Ok(VFmt(v))                  \* f"{<c>}": a formatted string literal, shown as a whole
    [] k = "neg" -> IF VNumeric(v) THEN Ok(VInt(0 - v.n)) ELSE Exc("TypeError")
    [] k = "ident" -> Ok(v)
    [] k = "len" -> IF v.t = "list" THEN Ok(VInt(Len(v.s))) ELSE Exc("TypeError")
    [] k = "first" -> IF v.t = "list" THEN (IF v.s = <<>> THEN Exc("IndexError") ELSE Ok(VElem(v.s[1]))) ELSE Exc("TypeError")
    [] k \in {"all_gt", "all_pos"} -> IF v.t = "list" THEN AllWalk(k, 0, v.s, 1) ELSE Exc("TypeError")
    [] k = "attr" -> IF v.t = "obj" THEN Ok(VInt(v.n)) ELSE Exc("AttributeError")
    [] k = "isnone" -> Ok(VBool(v.t = "none"))
Binary(k, a, b) ==
  CASE k = "add" -> IF VNumeric(a) /\ VNumeric(b) THEN Ok(VInt(a.n + b.n))
                    ELSE IF a.t = "list" /\ b.t = "list" THEN Ok(VList(a.s \o b.s)) ELSE Exc("TypeError")
    [] k = "floordiv" -> IF VNumeric(a) /\ VNumeric(b) THEN (IF b.n = 0 THEN Exc("ZeroDivisionError") ELSE Ok(VInt(a.n \div b.n)))
                         ELSE Exc("TypeError")
    \* (two of the harness's objects compare by their attribute and answer with the INTEGERS 0 / 1 - falsy / truthy
    \*  results that are not the singletons False / True, as numpy scalars give them)
    [] k = "lt" -> IF a.t = "obj" /\ b.t = "obj" THEN Ok(VInt(IF a.n < b.n THEN 1 ELSE 0))
                   ELSE IF VNumeric(a) /\ VNumeric(b) THEN Ok(VBool(a.n < b.n))
                   ELSE IF a.t = "list" /\ b.t = "list" THEN ListLess(a.s, b.s) ELSE Exc("TypeError")
    \* the harness's objects are STRICT value objects: comparing one with anything but such an object raises TypeError
    [] k = "eq" -> IF (a.t = "obj") # (b.t = "obj") THEN Exc("TypeError") ELSE Ok(VBool(PyEq(a, b)))
    [] k = "in" -> IF b.t # "list" THEN Exc("TypeError")
                   ELSE IF a.t = "obj" /\ b.s # <<>> THEN Exc("TypeError")
                   ELSE Ok(VBool(\E i \in DOMAIN b.s : PyEq(a, VElem(b.s[i]))))
    [] k = "star_then" -> IF a.t # "list" \/ HasNoneElem(IF a.t = "list" THEN a.s ELSE <<>>) \/ ~VNumeric(b) THEN Exc("TypeError")
                          ELSE Ok(VInt(Digits(Append(a.s, b.n), 1, 0)))
    [] k = "pairlen" -> Ok(VInt(2))
    \* all_nest : all(e > 0 for i, (e, d) in [(0, (<a>, <b>)), (1, (<b>, <a>))])   nested loop targets; the counterexample
    \*            names every loop variable: s = <<i, class of e, class of d, d.n>> \o d.s, n = e.n
    [] k = "all_nest" ->
         IF ~VNumeric(a) THEN Exc("TypeError")
         ELSE IF ~(a.n > 0) THEN Ok([t |-> "allfail", n |-> a.n, s |-> <<0, ClsOfVal(a), ClsOfVal(b), b.n>> \o b.s])
         ELSE IF ~VNumeric(b) THEN Exc("TypeError")
         ELSE IF ~(b.n > 0) THEN Ok([t |-> "allfail", n |-> b.n, s |-> <<1, ClsOfVal(b), ClsOfVal(a), a.n>> \o a.s])
         ELSE Ok(VBool(TRUE))
\* Python itself sees a failed quantifier simply as False
PyView(v) == IF v.t = "allfail" THEN VBool(FALSE) ELSE v

Leaf(p) ==
  LET nd == Expr[p] IN
  CASE nd.k = "int" -> VInt(nd.a) [] nd.k = "none" -> VNone [] nd.k = "true" -> VBool(TRUE)
    [] nd.k = "false" -> VBool(FALSE) [] nd.k = "name" -> Env(nd.a)

-----------------------------------------------------------------------------
(* Python's evaluation.  Result: [st, v, ev] - status, value, set of the    *)
(* positions evaluated (also when an exception cuts the evaluation short).  *)
RECURSIVE Eval(_)
Eval(p) ==
  LET k == Expr[p].k IN
  IF Arity(k) = 0 THEN [st |-> "ok", v |-> Leaf(p), ev |-> {p}]
  ELSE IF Arity(k) = 1 THEN
    LET a == Eval(Child1(p)) IN
    IF a.st # "ok" THEN [st |-> a.st, v |-> a.v, ev |-> a.ev \cup {p}]
    ELSE LET r == Unary(k, a.v) IN [st |-> r.st, v |-> PyView(r.v), ev |-> a.ev \cup {p}]
  ELSE IF k \in {"and", "or"} THEN
    LET a == Eval(Child1(p)) IN
    IF a.st # "ok" THEN [st |-> a.st, v |-> a.v, ev |-> a.ev \cup {p}]
    ELSE IF ~TruthOK(a.v) THEN [st |-> "exc", v |-> Exc("TypeError").v, ev |-> a.ev \cup {p}]
    ELSE IF (k = "and") = Truthy(a.v)
      THEN LET b == Eval(Child2(p)) IN [st |-> b.st, v |-> b.v, ev |-> a.ev \cup b.ev \cup {p}]
      ELSE [st |-> "ok", v |-> a.v, ev |-> a.ev \cup {p}]
  ELSE IF k \in {"and3", "or3"} THEN
    LET a == Eval(Child1(p)) IN
    IF a.st # "ok" THEN [st |-> a.st, v |-> a.v, ev |-> a.ev \cup {p}]
    ELSE IF ~TruthOK(a.v) THEN [st |-> "exc", v |-> Exc("TypeError").v, ev |-> a.ev \cup {p}]
    ELSE IF (k = "and3") # Truthy(a.v) THEN [st |-> "ok", v |-> a.v, ev |-> a.ev \cup {p}]
    ELSE LET b == Eval(Child2(p)) IN
         IF b.st # "ok" THEN [st |-> b.st, v |-> b.v, ev |-> a.ev \cup b.ev \cup {p}]
         ELSE IF ~TruthOK(b.v) THEN [st |-> "exc", v |-> Exc("TypeError").v, ev |-> a.ev \cup b.ev \cup {p}]
         ELSE IF (k = "and3") # Truthy(b.v) THEN [st |-> "ok", v |-> b.v, ev |-> a.ev \cup b.ev \cup {p}]
         ELSE LET c == Eval(Child3(p)) IN [st |-> c.st, v |-> c.v, ev |-> a.ev \cup b.ev \cup c.ev \cup {p}]
  ELSE IF k = "ifexp" THEN
    LET c == Eval(Child1(p)) IN
    IF c.st # "ok" THEN [st |-> c.st, v |-> c.v, ev |-> c.ev \cup {p}]
    ELSE IF ~TruthOK(c.v) THEN [st |-> "exc", v |-> Exc("TypeError").v, ev |-> c.ev \cup {p}]
    ELSE LET b == Eval(IF Truthy(c.v) THEN Child2(p) ELSE Child3(p)) IN
         [st |-> b.st, v |-> b.v, ev |-> c.ev \cup b.ev \cup {p}]
  ELSE IF k = "lt2" THEN
    \* a < b < c : c is evaluated only if a < b holds
    LET a == Eval(Child1(p)) IN
    IF a.st # "ok" THEN [st |-> a.st, v |-> a.v, ev |-> a.ev \cup {p}]
    ELSE LET b == Eval(Child2(p)) IN
         IF b.st # "ok" THEN [st |-> b.st, v |-> b.v, ev |-> a.ev \cup b.ev \cup {p}]
         ELSE LET r1 == Binary("lt", a.v, b.v) IN
              IF r1.st # "ok" THEN [st |-> "exc", v |-> r1.v, ev |-> a.ev \cup b.ev \cup {p}]
              ELSE IF ~Truthy(r1.v) THEN [st |-> "ok", v |-> r1.v, ev |-> a.ev \cup b.ev \cup {p}]
              ELSE LET c == Eval(Child3(p)) IN
                   IF c.st # "ok" THEN [st |-> c.st, v |-> c.v, ev |-> a.ev \cup b.ev \cup c.ev \cup {p}]
                   ELSE LET r2 == Binary("lt", b.v, c.v) IN [st |-> r2.st, v |-> r2.v, ev |-> a.ev \cup b.ev \cup c.ev \cup {p}]
  ELSE IF k = "star_then" /\ Eval(Child1(p)).st = "ok" /\ Eval(Child1(p)).v.t # "list" THEN
    \* f(*a, b): a is unpacked as soon as it has been evaluated; if it is not iterable, b is never evaluated
    [st |-> "exc", v |-> Exc("TypeError").v, ev |-> Eval(Child1(p)).ev \cup {p}]
  ELSE \* plain binary operator: both operands, left to right
    LET a == Eval(Child1(p)) IN
    IF a.st # "ok" THEN [st |-> a.st, v |-> a.v, ev |-> a.ev \cup {p}]
    ELSE LET b == Eval(Child2(p)) IN
         IF b.st # "ok" THEN [st |-> b.st, v |-> b.v, ev |-> a.ev \cup b.ev \cup {p}]
         ELSE LET r == Binary(k, a.v, b.v) IN [st |-> r.st, v |-> PyView(r.v), ev |-> a.ev \cup b.ev \cup {p}]

-----------------------------------------------------------------------------
(* The re-evaluator.  Result: [st, v, tc, val] where st is "ok", "exc"      *)
(* (-> RuntimeError "Failed to recompute") or "ph" (placeholder: the value  *)
(* is unknown, enclosing expressions are left out), tc the positions it     *)
(* touched and val the set of <<position, value>> it recorded.              *)
PH == [t |-> "ph", n |-> 0, s |-> <<>>]
RName(p) == IF Env(Expr[p].a).t = "none" THEN [st |-> "ph", v |-> PH, tc |-> {p}, val |-> {}]
            ELSE [st |-> "ok", v |-> Env(Expr[p].a), tc |-> {p}, val |-> {<<p, Env(Expr[p].a)>>}]

RECURSIVE Rec(_), RecBool(_), RecChain(_), LazyBool(_, _, _, _), EagerAll(_, _, _)
Rec(p) ==
  LET k == Expr[p].k IN
  IF k = "name" THEN RName(p)
  ELSE IF Arity(k) = 0 THEN [st |-> "ok", v |-> Leaf(p), tc |-> {p}, val |-> {<<p, Leaf(p)>>}]
  ELSE IF k = "sum_star" /\ SwNoStarred THEN
    \* visit_Call visits the callee, then gives up on the ast.Starred argument before touching its value
    [st |-> "exc", v |-> PH, tc |-> {p}, val |-> {}]
  ELSE IF Arity(k) = 1 THEN
    LET a0 == Rec(Child1(p))
        \* the comprehension is compiled and executed as a whole (its iterable is visited first); with the deviation
        \* the shadowing loop variable gets a line of its own: position 0 stands for "the text x"
        a == IF k = "comp" /\ SwCompTargetLeaks THEN [a0 EXCEPT !.val = @ \cup {<<0, PH>>}] ELSE a0
    IN
    IF a.st # "ok" THEN [st |-> a.st, v |-> a.v, tc |-> a.tc \cup {p}, val |-> a.val]
    ELSE LET r == Unary(k, a.v) IN
         \* (the counterexample of a failed quantifier is recorded for display; the enclosing expression gets False)
         IF r.st = "ok" THEN [st |-> "ok", v |-> IF SwAllFailLeaks THEN r.v ELSE PyView(r.v), tc |-> a.tc \cup {p},
                              val |-> a.val \cup {<<p, r.v>>}]
         ELSE [st |-> "exc", v |-> r.v, tc |-> a.tc \cup {p}, val |-> a.val]
  ELSE IF k \in {"and", "or", "and3", "or3"} THEN RecBool(p)
  ELSE IF k = "ifexp" THEN
    LET c == Rec(Child1(p)) IN
    IF c.st # "ok" THEN [st |-> c.st, v |-> c.v, tc |-> c.tc \cup {p}, val |-> c.val]
    ELSE IF ~TruthOK(c.v) THEN [st |-> "exc", v |-> PH, tc |-> c.tc \cup {p}, val |-> c.val]
    ELSE LET b == Rec(IF Truthy(c.v) THEN Child2(p) ELSE Child3(p)) IN
         [st |-> b.st, v |-> b.v, tc |-> c.tc \cup b.tc \cup {p},
          val |-> c.val \cup b.val \cup (IF b.st = "ok" THEN {<<p, b.v>>} ELSE {})]
  ELSE IF k = "lt2" THEN RecChain(p)
  ELSE IF k = "all_nest" THEN
    \* the quantifier is compiled and executed as a whole with the values the names really have (also None: only the
    \* visit of the display yields placeholders, and its result is not used); the operands are names
    LET a == Rec(Child1(p)) b == Rec(Child2(p))
        r == Binary(k, Env(Expr[Child1(p)].a), Env(Expr[Child2(p)].a))
    IN IF r.st = "ok" THEN [st |-> "ok", v |-> IF SwAllFailLeaks THEN r.v ELSE PyView(r.v), tc |-> a.tc \cup b.tc \cup {p},
                            val |-> a.val \cup b.val \cup {<<p, r.v>>}]
       ELSE [st |-> "exc", v |-> r.v, tc |-> a.tc \cup b.tc \cup {p}, val |-> a.val \cup b.val]
  ELSE IF k = "star_then" /\ Rec(Child1(p)).st = "ok" /\ Rec(Child1(p)).v.t # "list" THEN
    \* visit_Call unpacks the starred value before it visits the next argument
    [st |-> "exc", v |-> PH, tc |-> Rec(Child1(p)).tc \cup {p}, val |-> Rec(Child1(p)).val]
  ELSE
    LET a == Rec(Child1(p)) b == Rec(Child2(p)) IN      \* visit_BinOp / visit_Compare visit both operands first
    IF a.st = "exc" THEN [st |-> "exc", v |-> a.v, tc |-> a.tc \cup {p}, val |-> a.val]
    ELSE IF b.st = "exc" THEN [st |-> "exc", v |-> b.v, tc |-> a.tc \cup b.tc \cup {p}, val |-> a.val \cup b.val]
    ELSE IF a.st = "ph" \/ b.st = "ph" THEN [st |-> "ph", v |-> PH, tc |-> a.tc \cup b.tc \cup {p}, val |-> a.val \cup b.val]
    ELSE LET r == Binary(k, a.v, b.v) IN
         \* (as for the unary quantifiers: the counterexample is recorded, the enclosing expression gets False)
         IF r.st = "ok" THEN [st |-> "ok", v |-> IF SwAllFailLeaks THEN r.v ELSE PyView(r.v), tc |-> a.tc \cup b.tc \cup {p},
                              val |-> a.val \cup b.val \cup {<<p, r.v>>}]
         ELSE [st |-> "exc", v |-> r.v, tc |-> a.tc \cup b.tc \cup {p}, val |-> a.val \cup b.val]

\* operands of a boolean operator, in order
Operands(p) == IF Arity(Expr[p].k) = 2 THEN <<Child1(p), Child2(p)>> ELSE <<Child1(p), Child2(p), Child3(p)>>
IsAnd(p) == Expr[p].k \in {"and", "and3"}

\* lazy walk (like Python): stop at the first decisive operand, at a placeholder or at an exception
LazyBool(p, ops, i, acc) ==
  LET r == Rec(ops[i])
      tc == acc.tc \cup r.tc
      val == acc.val \cup r.val
  IN IF r.st # "ok" THEN [st |-> r.st, v |-> r.v, tc |-> tc, val |-> val]
     \* SwLastOperandTruth (F32): the truth value of the LAST operand is tested as well (Python never does)
     ELSE IF ~TruthOK(r.v) /\ (i < Len(ops) \/ SwLastOperandTruth) THEN [st |-> "exc", v |-> PH, tc |-> tc, val |-> val]
     ELSE IF i = Len(ops) \/ (IsAnd(p) # Truthy(r.v)) THEN [st |-> "ok", v |-> r.v, tc |-> tc, val |-> val \cup {<<p, r.v>>}]
     ELSE LazyBool(p, ops, i + 1, [tc |-> tc, val |-> val])

\* eager walk (the code as pinned): every operand is visited, then the values are folded
EagerAll(ops, i, acc) ==
  IF i > Len(ops) THEN acc
  ELSE LET r == Rec(ops[i]) IN
       IF r.st = "exc" THEN [st |-> "exc", vs |-> acc.vs, tc |-> acc.tc \cup r.tc, val |-> acc.val \cup r.val]
       ELSE EagerAll(ops, i + 1, [st |-> IF r.st = "ph" THEN "ph" ELSE acc.st, vs |-> Append(acc.vs, r.v),
                                  tc |-> acc.tc \cup r.tc, val |-> acc.val \cup r.val])
RECURSIVE FoldBool(_, _, _, _)
FoldBool(isand, vs, i, acc) ==
  IF i > Len(vs) THEN acc
  ELSE FoldBool(isand, vs, i + 1, IF isand THEN (IF Truthy(acc) THEN vs[i] ELSE acc) ELSE (IF Truthy(acc) THEN acc ELSE vs[i]))

RecBool(p) ==
  IF ~SwEagerBool THEN LazyBool(p, Operands(p), 1, [tc |-> {p}, val |-> {}])
  ELSE LET r == EagerAll(Operands(p), 1, [st |-> "ok", vs |-> <<>>, tc |-> {p}, val |-> {}]) IN
       IF r.st = "exc" THEN [st |-> "exc", v |-> PH, tc |-> r.tc, val |-> r.val]
       ELSE IF r.st = "ph" THEN [st |-> "ph", v |-> PH, tc |-> r.tc, val |-> r.val]
       ELSE LET seed == IF IsAnd(p) \/ SwOrSeedTrue THEN VBool(TRUE) ELSE VBool(FALSE)
                v == FoldBool(IsAnd(p), r.vs, 1, seed)
            IN [st |-> "ok", v |-> v, tc |-> r.tc, val |-> r.val \cup {<<p, v>>}]

RecChain(p) ==
  LET a == Rec(Child1(p)) b == Rec(Child2(p)) IN
  IF a.st = "exc" THEN [st |-> "exc", v |-> a.v, tc |-> a.tc \cup {p}, val |-> a.val]
  ELSE IF b.st = "exc" THEN [st |-> "exc", v |-> b.v, tc |-> a.tc \cup b.tc \cup {p}, val |-> a.val \cup b.val]
  ELSE IF SwEagerBool THEN
    LET c == Rec(Child3(p))
        tc == a.tc \cup b.tc \cup c.tc \cup {p}
        val == a.val \cup b.val \cup c.val
    IN IF c.st = "exc" THEN [st |-> "exc", v |-> c.v, tc |-> tc, val |-> val]
       ELSE IF a.st = "ph" \/ b.st = "ph" \/ c.st = "ph" THEN [st |-> "ph", v |-> PH, tc |-> tc, val |-> val]
       ELSE LET r1 == Binary("lt", a.v, b.v) IN
            IF r1.st # "ok" THEN [st |-> "exc", v |-> r1.v, tc |-> tc, val |-> val]
            ELSE LET r2 == Binary("lt", b.v, c.v) IN
                 IF r2.st # "ok" THEN [st |-> "exc", v |-> r2.v, tc |-> tc, val |-> val]
                 ELSE LET v == IF Truthy(r1.v) THEN r2.v ELSE r1.v IN
                      [st |-> "ok", v |-> v, tc |-> tc, val |-> val \cup {<<p, v>>}]
  ELSE
    LET tc2 == a.tc \cup b.tc \cup {p} val2 == a.val \cup b.val IN
    IF a.st = "ph" \/ b.st = "ph" THEN [st |-> "ph", v |-> PH, tc |-> tc2, val |-> val2]
    ELSE LET r1 == Binary("lt", a.v, b.v) IN
         IF r1.st # "ok" THEN [st |-> "exc", v |-> r1.v, tc |-> tc2, val |-> val2]
         ELSE IF ~Truthy(r1.v) THEN [st |-> "ok", v |-> r1.v, tc |-> tc2, val |-> val2 \cup {<<p, r1.v>>}]
         ELSE LET c == Rec(Child3(p)) IN
              IF c.st # "ok" THEN [st |-> c.st, v |-> c.v, tc |-> tc2 \cup c.tc, val |-> val2 \cup c.val]
              ELSE LET r2 == Binary("lt", b.v, c.v) IN
                   IF r2.st # "ok" THEN [st |-> "exc", v |-> r2.v, tc |-> tc2 \cup c.tc, val |-> val2 \cup c.val]
                   ELSE [st |-> "ok", v |-> r2.v, tc |-> tc2 \cup c.tc, val |-> val2 \cup c.val \cup {<<p, r2.v>>}]

-----------------------------------------------------------------------------
(* What the message shows: names, attributes, calls and subscripts that got *)
(* a recorded value (icontract/_represent.py).                              *)
ShownKind(k) == k \in {"name", "ident", "len", "first", "attr", "all_gt", "all_pos", "sum_star", "comp", "typeof", "star_then", "pairlen", "fstr", "all_nest"}
PyRes  == Eval(1)
RecRes == Rec(1)
InsideFstr(q) == \E p \in DOMAIN Expr : Expr[p].k = "fstr" /\ p < q /\ q < EndOf(p)
Shown  == {pv \in RecRes.val : (pv[1] = 0 \/ ShownKind(Expr[pv[1]].k)) /\ ~(SwFStringOpaque /\ pv[1] # 0 /\ InsideFstr(pv[1]))}

Violated == PyRes.st = "ok" /\ TruthOK(PyRes.v) /\ ~Truthy(PyRes.v)        \* the condition evaluates falsy: a violation is due
\* no name USED by the condition is bound to None
NoneFree == \A p \in DOMAIN Expr : Expr[p].k = "name" => Env(Expr[p].a).t # "none"

\* the value of the node at position q in Python's evaluation (q was evaluated)
EvalAt(q) == Eval(q).v

(* ---- C07 ---- *)
\* building the message never evaluates what Python's own evaluation skipped ...
RecomputeWithinEvaluated == Violated => RecRes.tc \subseteq PyRes.ev
\* ... and never replaces the violation by another exception
ViolationSurfaces == Violated => RecRes.st # "exc"
(* ---- C06 ---- *)
\* every value shown is the value Python computes for that sub-expression
ShownSound == Violated => \A pv \in Shown : pv[1] \in PyRes.ev /\ PyView(pv[2]) = EvalAt(pv[1])
\* for a failing all(<generator>) the reported example is the first falsifying element
AllCounterexample ==
  Violated => \A pv \in Shown : (pv[2].t = "allfail" /\ Expr[pv[1]].k \in {"all_gt", "all_pos"}) =>
     LET xs == Eval(Child1(pv[1])).v.s
         i == CHOOSE j \in DOMAIN xs : xs[j] = pv[2].n /\ \A h \in 1..(j - 1) : AllWalk(Expr[pv[1]].k, 0, SubSeq(xs, h, h), 1).v.t # "allfail"
     IN AllWalk(Expr[pv[1]].k, 0, SubSeq(xs, i, i), 1).v.t = "allfail"
\* ... also when the loop targets are nested: the example is the first pair whose first component is not positive
AllNestCounterexample ==
  Violated => \A pv \in Shown : (pv[2].t = "allfail" /\ Expr[pv[1]].k = "all_nest") =>
     LET a == Eval(Child1(pv[1])).v
         b == Eval(Child2(pv[1])).v
     IN \/ pv[2].s[1] = 0 /\ ~(a.n > 0) /\ pv[2].n = a.n
        \/ pv[2].s[1] = 1 /\ a.n > 0 /\ ~(b.n > 0) /\ pv[2].n = b.n
\* every name / attribute / call / subscript Python evaluated is shown (claimed when no name is bound to None)
ShownComplete == (Violated /\ NoneFree) => \A p \in PyRes.ev : ShownKind(Expr[p].k) => \E pv \in Shown : pv[1] = p
EInit == case \in CaseSpace
ENext == UNCHANGED evars
ESpec == EInit /\ [][ENext]_evars
=============================================================================
