---- MODULE MC_smoke ----
EXTENDS ICCall, ICProg, Json

P1 == [ fn  |-> << Fn("func", 0, FALSE, <<"chk">>, << <<1, 2>> >>, <<1>>, <<3>>, <<>>, <<RetV(11), RetV(12)>>, 0) >>,
        con |-> << Con("pre", "default", FALSE, <<TRUE, TRUE, TRUE>>, "bool", <<>>, <<>>),
                   Con("pre", "factory", FALSE, <<TRUE, TRUE, FALSE>>, "bool", <<>>, <<>>),
                   Con("post", "inst", FALSE, <<TRUE, FALSE, TRUE>>, "bool", <<>>, <<>>) >>,
        snp |-> << Snp(21, "bool", <<>>) >>,
        cls |-> << >>, obj |-> << >>,
        drv |-> << <<CallOp(1, 0, 1), CallOp(1, 0, 2)>> >>,
        fault |-> NoFault ]
MCProgSpace == {P1}
PrintDone == AllDone => PrintT(ToJson([log |-> log]))
====
