#!/bin/bash
# usage: try_mutant.sh <dir with patch.diff [demo.py]> <prop> [<prop>...]
# Applies the patch to a scratch worktree of /repo (never to /repo itself), runs the baseline tests, the demo and the
# quick checks of the given properties against it through ICV_REPO, then removes the worktree.
set -u
D=$(realpath $1); shift
WT=$(mktemp -d /tmp/mutwt.XXXXXX); rmdir $WT
git -C /repo worktree add -q --detach $WT HEAD || exit 2
if ! git -C $WT apply $D/patch.diff 2>/tmp/apply.err; then
  if ! (cd $WT && patch -p1 --fuzz=3 < $D/patch.diff >/tmp/apply.err 2>&1); then
    echo "PATCH-DOES-NOT-APPLY"; cat /tmp/apply.err | head -5; git -C /repo worktree remove --force $WT; exit 3
  fi
fi
echo "== baseline tests on mutant:"; (cd $WT && /venv/bin/python -m pytest -q -p no:cacheprovider --timeout=900 --continue-on-collection-errors 2>&1 | tail -1)
if [ -f $D/demo.py ]; then
  echo "== demo on mutant:"; (cd /tmp && PYTHONPATH=$WT /venv/bin/python $D/demo.py 2>&1 | grep -v conda | tail -3); echo "demo exit=$?"
  echo "== demo on clean:"; (cd /tmp && PYTHONPATH=/repo /venv/bin/python $D/demo.py 2>&1 | grep -v conda | tail -1)
fi
for P in "$@"; do
  echo "== check $P on mutant:"
  (cd /verif && ICV_REPO=$WT ICV_NO_EVIDENCE=1 /venv/bin/python -m icv check $P 2>&1 | grep -v conda | grep -E "VIOLATION|^OK|MACHINERY|KNOWN|clause=|note:" | head -8)
done
git -C /repo worktree remove --force $WT
find $WT -maxdepth 0 2>/dev/null && rm -rf $WT
exit 0
