#!/bin/bash
# usage: try_mutant.sh <dir with patch.diff [demo.py]> <prop> [<prop>...]
# Applies the patch to a scratch worktree of /repo (never to /repo itself), runs the baseline tests, the demo and the
# quick checks of the given properties against it through ICV_REPO, then removes the worktree.
set -u
HERE=$(cd "$(dirname "$0")/.." && pwd)
D=$(realpath $1); shift
WT=$(mktemp -d /tmp/mutwt.XXXXXX); rmdir $WT
git -C /repo worktree add -q --detach $WT HEAD || exit 2
if ! git -C $WT apply $D/patch.diff 2>/tmp/apply.$$.err; then
  echo "PATCH-DOES-NOT-APPLY"; head -5 /tmp/apply.$$.err; rm -f /tmp/apply.$$.err; git -C /repo worktree remove --force $WT; exit 3
fi
rm -f /tmp/apply.$$.err
echo "== baseline tests on mutant:"; (cd $WT && /venv/bin/python -m pytest -q -p no:cacheprovider --timeout=900 --continue-on-collection-errors 2>&1 | tail -1)
if [ -f $D/demo.py ]; then
  (cd /tmp && PYTHONPATH=$WT /venv/bin/python $D/demo.py >/tmp/demo.$$.out 2>&1); echo "== demo on mutant: exit=$? $(grep -v conda /tmp/demo.$$.out | tail -1 | cut -c1-160)"
  (cd /tmp && PYTHONPATH=/repo /venv/bin/python $D/demo.py >/tmp/demo.$$.out 2>&1); echo "== demo on clean:  exit=$? $(grep -v conda /tmp/demo.$$.out | tail -1 | cut -c1-160)"
  rm -f /tmp/demo.$$.out
fi
for P in "$@"; do
  echo "== check $P on mutant:"
  (cd $HERE && ICV_REPO=$WT ICV_NO_EVIDENCE=1 ICV_NO_REPLAY=1 /venv/bin/python -m icv check $P > /tmp/chk.$$.out 2>&1; echo "exit=$?"; grep -v conda /tmp/chk.$$.out | grep -E "^VIOLATION|^OK|MACHINERY" | head -2 | cut -c1-200; grep -v conda /tmp/chk.$$.out | grep -E "^  clause=" | head -2 | cut -c1-260)
  rm -f /tmp/chk.$$.out
done
git -C /repo worktree remove --force $WT
[ -d $WT ] && rm -rf $WT
exit 0
