#!/bin/bash
# Run tools/seed_eval.py from a frozen copy of /verif (so that editing the framework meanwhile cannot disturb the
# evaluation), then copy the seeded/<id> directories and the result tables back.
# usage: seed_eval_snapshot.sh [seed_eval.py arguments...]   (candidate dirs relative to /verif)
set -u
SNAP=$(mktemp -d /tmp/verif_snap.XXXXXX)
rsync -a --exclude .git --exclude replays --exclude __pycache__ /verif/ $SNAP/
(cd $SNAP && /venv/bin/python tools/seed_eval.py "$@")
rc=$?
rsync -a --exclude candidates --exclude candidates2 --exclude candidates3 --exclude candidates4 --exclude candidates5 --exclude candidates6 --exclude candidates7 --exclude candidates8 $SNAP/seeded/ /verif/seeded/
rm -rf $SNAP
exit $rc
