#!/bin/bash
# run every registered quick (or thorough) check, print a one-line summary per property
TIER=${1:-quick}
cd /verif
for p in $(/venv/bin/python -m icv list 2>/dev/null | grep '^C'); do
  s=$(date +%s)
  out=$(/venv/bin/python -m icv check $p --tier $TIER 2>&1 | grep -v conda)
  rc=$?
  e=$(date +%s)
  echo "$p rc=$(echo "$out" | grep -cE '^VIOLATION') $(echo "$out" | grep -E '^OK|MACHINERY' | head -1 | cut -c1-150) [$((e-s))s]"
done
