#!/bin/bash
# evaluate every candidate mutant against the check of its own property
HERE=$(cd "$(dirname "$0")/.." && pwd)
cd $HERE
for d in seeded/candidates/C*/m* seeded/rebased/C*/m*; do
  [ -f $d/patch.diff ] || continue
  p=$(basename $(dirname $d))
  echo "##### $d"
  tools/try_mutant.sh $d $p 2>&1 | grep -v conda
done
