#!/bin/bash
# evaluate every candidate mutant against the check of its own property; usage: eval_candidates.sh [dir ...]
HERE=$(cd "$(dirname "$0")/.." && pwd)
cd $HERE
DIRS=${@:-seeded/candidates seeded/candidates2}
for top in $DIRS; do
for d in $top/C*/m*; do
  [ -f $d/patch.diff ] || continue
  p=$(basename $(dirname $d))
  echo "##### $d"
  tools/try_mutant.sh $d $p 2>&1 | grep -v conda
done
done
