#!/venv/bin/python
"""Confirm candidate seeded changes and record them as /verif/seeded/<id>/.

For every candidate directory (patch.diff, demo.py, meta.json written by a sub-agent that saw only the property text):
  1. a scratch worktree of /repo HEAD is created under /tmp and the patch applied there (never in /repo),
  2. the pinned test suite is run on the mutant (must equal the baseline: 358 passed, 6 failed),
  3. the demonstration is run on the mutant (must fail) and on the clean tree (must pass),
  4. the quick check of the property (and of the properties given with --also) is run against the mutant through
     ICV_REPO; the first VIOLATION line / clause is recorded,
  5. the worktree is removed.
Confirmed changes are written to /verif/seeded/<id>/ {patch.diff, demo.py, meta.json}; a summary table goes to
/verif/seeded/RESULTS.md.

usage: seed_eval.py [--jobs N] [--only ID,...] <candidates dir> [<candidates dir> ...]
"""
import concurrent.futures
import json
import os
import re
import shutil
import subprocess
import sys
import tempfile

VERIF = os.path.dirname(os.path.dirname(os.path.abspath(__file__)))
PY = "/venv/bin/python"
BASELINE = json.load(open("/root/.vp/BASELINE.json")) if os.path.exists("/root/.vp/BASELINE.json") else {}


def sh(cmd, cwd=None, env=None, timeout=3600):
    e = dict(os.environ)
    e.update(env or {})
    p = subprocess.run(cmd, cwd=cwd, env=e, stdout=subprocess.PIPE, stderr=subprocess.STDOUT, timeout=timeout)
    out = "\n".join(l for l in p.stdout.decode(errors="replace").splitlines() if "conda" not in l)
    return p.returncode, out


def evaluate(cdir, sid, round_name):
    prop = os.path.basename(os.path.dirname(cdir))
    rec = {"id": sid, "property": prop, "round": round_name, "source": os.path.relpath(cdir, VERIF)}
    cmeta = {}
    if os.path.exists(os.path.join(cdir, "meta.json")):
        try:
            cmeta = json.load(open(os.path.join(cdir, "meta.json")))
        except Exception:  # noqa
            cmeta = {}
    rec["summary"] = cmeta.get("summary", "")
    rec["needs"] = cmeta.get("needs", "")
    rec["note"] = cmeta.get("note", "")
    wt = tempfile.mkdtemp(prefix="seedwt.")
    os.rmdir(wt)
    rc, out = sh(["git", "-C", "/repo", "worktree", "add", "-q", "--detach", wt, "HEAD"])
    if rc != 0:
        rec["status"] = "machinery-error: " + out[-300:]
        return rec
    try:
        rc, out = sh(["git", "-C", wt, "apply", os.path.join(cdir, "patch.diff")])
        if rc != 0:
            # the tree has moved on since the change was written (later repairs): merge it three-way against the blobs
            # the patch names; the confirmation below (suite unchanged, demonstration fails with / passes without the
            # change) decides whether the merged change is still the change
            sh(["git", "-C", wt, "checkout", "--", "."])
            rc3, out3 = sh(["git", "-C", wt, "apply", "--3way", os.path.join(cdir, "patch.diff")])
            rcu, outu = sh(["git", "-C", wt, "diff", "--name-only", "--diff-filter=U"])
            if rc3 != 0 or outu.strip():
                rec["status"] = "patch-does-not-apply"
                rec["detail"] = out[-300:]
                return rec
            rec["applied"] = "3way"
        rc, out = sh([PY, "-m", "pytest", "-q", "-p", "no:cacheprovider", "--timeout=900",
                      "--continue-on-collection-errors"], cwd=wt)
        rec["tests"] = out.strip().splitlines()[-1] if out.strip() else ""
        m = re.search(r"(\d+) failed, (\d+) passed", rec["tests"])
        rec["tests_equal_baseline"] = bool(m and m.group(1) == "6" and m.group(2) == "358")
        demo = os.path.join(cdir, "demo.py")
        rc_m, out_m = sh([PY, demo], cwd="/tmp", env={"PYTHONPATH": wt})
        rc_c, out_c = sh([PY, demo], cwd="/tmp", env={"PYTHONPATH": "/repo"})
        rec["demo_on_mutant"] = {"exit": rc_m, "last": (out_m.strip().splitlines() or [""])[-1][:300]}
        rec["demo_on_clean"] = {"exit": rc_c, "last": (out_c.strip().splitlines() or [""])[-1][:300]}
        rec["confirmed"] = bool(rec["tests_equal_baseline"] and rc_m != 0 and rc_c == 0)
        rc, out = sh([PY, "-m", "icv", "check", prop], cwd=VERIF,
                     env={"ICV_REPO": wt, "ICV_NO_EVIDENCE": "1", "ICV_NO_REPLAY": "1"})
        viol = [l for l in out.splitlines() if l.startswith("VIOLATION")]
        clauses = [l.strip() for l in out.splitlines() if l.startswith("  clause=")]
        rec["check"] = {"command": "ICV_REPO=<worktree with the patch> {} -m icv check {} --tier quick".format(PY, prop),
                        "exit": rc, "violations": len(viol),
                        "first_clause": clauses[0][:400] if clauses else "",
                        "machinery_error": next((l[:300] for l in out.splitlines() if l.startswith("MACHINERY")), "")}
        rec["caught"] = bool(rc == 1 and viol)
        rec["status"] = "ok"
        return rec
    finally:
        sh(["git", "-C", "/repo", "worktree", "remove", "--force", wt])
        shutil.rmtree(wt, ignore_errors=True)
        sh(["git", "-C", "/repo", "worktree", "prune"])


def main():
    args = sys.argv[1:]
    jobs = 3
    only = None
    dirs = []
    while args:
        a = args.pop(0)
        if a == "--jobs":
            jobs = int(args.pop(0))
        elif a == "--only":
            only = set(args.pop(0).split(","))
        else:
            dirs.append(a)
    work = []
    for top in dirs:
        rn = {"candidates": "round1", "candidates2": "round2", "candidates3": "round3", "candidates4": "round4", "candidates5": "round5", "candidates6": "round6", "candidates7": "round7", "candidates8": "round8"}.get(
            os.path.basename(os.path.normpath(top)), "roundx")
        for prop in sorted(os.listdir(top)):
            pd = os.path.join(top, prop)
            if not os.path.isdir(pd):
                continue
            for m in sorted(os.listdir(pd)):
                cdir = os.path.join(pd, m)
                if not os.path.exists(os.path.join(cdir, "patch.diff")) or not os.path.exists(os.path.join(cdir, "demo.py")):
                    continue
                sid = "{}-{}-{}".format(prop, "r" + rn[-1], m.replace("_", "-"))
                if only and sid not in only:
                    continue
                work.append((os.path.abspath(cdir), sid, rn))
    results = []
    with concurrent.futures.ThreadPoolExecutor(max_workers=jobs) as ex:
        futs = {ex.submit(evaluate, *w): w for w in work}
        for f in concurrent.futures.as_completed(futs):
            w = futs[f]
            try:
                rec = f.result()
            except Exception as exc:  # noqa
                rec = {"id": w[1], "property": os.path.basename(os.path.dirname(w[0])), "status": "machinery-error: {!r}".format(exc)}
            results.append(rec)
            print("{:28s} {:22s} confirmed={} caught={} {}".format(
                rec["id"], rec.get("status", ""), rec.get("confirmed"), rec.get("caught"),
                (rec.get("check") or {}).get("first_clause", "")[:110]), flush=True)
            if rec.get("status") == "ok" and rec.get("confirmed"):
                out = os.path.join(VERIF, "seeded", rec["id"])
                os.makedirs(out, exist_ok=True)
                shutil.copy(os.path.join(w[0], "patch.diff"), os.path.join(out, "patch.diff"))
                shutil.copy(os.path.join(w[0], "demo.py"), os.path.join(out, "demo.py"))
                if os.path.exists(os.path.join(w[0], "patch.orig.diff")):
                    shutil.copy(os.path.join(w[0], "patch.orig.diff"), os.path.join(out, "patch.orig.diff"))
                meta = {"id": rec["id"], "breaks": rec["property"], "what": rec["summary"],
                        "needs_to_manifest": rec["needs"], "origin": "sub-agent given only the property text and a scratch "
                        "worktree of /repo ({})".format(rec["round"]),
                        "what_i_ran": [
                            "git worktree add --detach /tmp/<scratch> HEAD (of /repo); git apply patch.diff in the worktree",
                            "pinned test suite on the mutant: " + rec["tests"],
                            "PYTHONPATH=<mutant> python demo.py -> exit {} ({})".format(rec["demo_on_mutant"]["exit"], rec["demo_on_mutant"]["last"][:160]),
                            "PYTHONPATH=/repo python demo.py -> exit {} ({})".format(rec["demo_on_clean"]["exit"], rec["demo_on_clean"]["last"][:160]),
                            rec["check"]["command"] + " -> exit {} with {} VIOLATION line(s)".format(rec["check"]["exit"], rec["check"]["violations"]),
                            "worktree removed"],
                        "note": rec.get("note", ""),
                        "caught_by_own_property_check": rec["caught"],
                        "first_violation": rec["check"]["first_clause"]}
                json.dump(meta, open(os.path.join(out, "meta.json"), "w"), indent=1)
    # merge with the results of earlier runs (a partial run only refreshes its own rows)
    rfile = os.path.join(VERIF, "seeded", "results.json")
    if os.path.exists(rfile):
        old = {r["id"]: r for r in json.load(open(rfile))}
        head = sh(["git", "-C", "/repo", "log", "--format=%h", "-1"])[1].strip()
        for i, r in enumerate(results):
            o = old.get(r["id"])
            if o and o.get("confirmed") and not r.get("confirmed") and r.get("status") != "ok":
                # written for an earlier tree: a later repair changed the code it modifies; keep the result of the last
                # evaluation in which the change still applied
                results[i] = dict(o, stale="does not apply to /repo HEAD {} any more ({}); result of the last evaluation "
                                           "in which it applied".format(head, r.get("status", "")[:40]))
        done = {r["id"] for r in results}
        results += [r for r in old.values() if r["id"] not in done]
    results.sort(key=lambda r: r["id"])
    json.dump(results, open(os.path.join(VERIF, "seeded", "results.json"), "w"), indent=1)
    lines = ["# Seeded changes: what was confirmed and which check catches it", "",
             "Generated by tools/seed_eval.py (every row re-run from the candidate's patch on a scratch worktree of /repo HEAD).",
             "", "| id | breaks | status | tests = baseline | demo mutant/clean | caught by `icv check <prop>` | first violation |",
             "|---|---|---|---|---|---|---|"]
    for r in results:
        lines.append("| {} | {} | {} | {} | {}/{} | {} | {} |".format(
            r["id"], r.get("property"), r.get("status") if not r.get("confirmed") else (
                "confirmed on an earlier tree" if r.get("stale") else "confirmed"),
            r.get("tests_equal_baseline", ""), (r.get("demo_on_mutant") or {}).get("exit", ""),
            (r.get("demo_on_clean") or {}).get("exit", ""), r.get("caught", ""),
            ((r.get("check") or {}).get("first_clause", "")[:150]).replace("|", "/")))
    nconf = sum(1 for r in results if r.get("confirmed"))
    ncaught = sum(1 for r in results if r.get("confirmed") and r.get("caught"))
    lines += ["", "confirmed: {}  caught by the check of the own property: {}".format(nconf, ncaught), ""]
    open(os.path.join(VERIF, "seeded", "RESULTS.md"), "w").write("\n".join(lines))
    print("confirmed", nconf, "caught", ncaught)


if __name__ == "__main__":
    main()
