#!/bin/bash
# Run every check of a tier from a frozen copy of /verif (the live tree can be edited meanwhile); evidence is NOT
# copied back.  usage: run_all_snapshot.sh [quick|thorough] [property ...]
TIER=${1:-quick}; shift
SNAP=$(mktemp -d /tmp/verif_snap.XXXXXX)
rsync -a --exclude .git --exclude replays --exclude __pycache__ --exclude seeded /verif/ $SNAP/
cd $SNAP
PROPS=${@:-$(/venv/bin/python -m icv list 2>/dev/null | grep '^C')}
for p in $PROPS; do
  s=$(date +%s)
  out=$(/venv/bin/python -m icv check $p --tier $TIER 2>&1 | grep -v conda)
  e=$(date +%s)
  echo "$p viol=$(echo "$out" | grep -cE '^VIOLATION') $(echo "$out" | grep -E '^OK|MACHINERY' | head -1 | cut -c1-170) [$((e-s))s]"
  echo "$out" | grep -E "^  clause=|^KNOWN" | head -3 | cut -c1-300
done
cd /; rm -rf $SNAP
