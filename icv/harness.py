"""Render an abstract program (the ``prog`` record of spec/ICCall.tla) onto the real icontract and run it.

The program is the same JSON value TLC prints (or the random driver builds).  Every user-supplied
callable (condition, capture, body, error factory) is instrumented: it logs one event per crossing of the
library/user boundary, follows its script (the calls it makes) and produces the value the oracle prescribes.
Nothing in icontract is patched; the in-progress state is read through ``icontract._checkers._IN_PROGRESS``.
"""
import contextvars
import linecache
import re
import sys
import threading
import itertools
from typing import Any, Dict, List, Optional

_SERIAL = itertools.count(1)


class HarnessAbort(BaseException):
    """Raised from an instrumentation point to stop a run (watchdog, replay divergence)."""


class V:
    """A sentinel object (argument or value) with an ordinal."""

    __slots__ = ("kind", "n")

    def __init__(self, kind: str, n: int) -> None:
        self.kind = kind
        self.n = n

    def __repr__(self) -> str:
        return "<{}{}>".format(self.kind, self.n)


class AwaitableV(V):
    """A value to be REMEMBERED that happens to be awaitable (a future, a task): capturing it must not await it."""

    __slots__ = ()

    def __await__(self):  # type: ignore
        return V("v", -999)
        yield  # pragma: no cover


class FaultExc(Exception):
    pass


class FaultKI(KeyboardInterrupt):
    pass


class FaultGenExit(GeneratorExit):
    pass


class FaultSysExit(SystemExit):
    pass


class FaultStopIter(StopIteration):
    pass


class FaultAssert(AssertionError):
    pass


class FaultKey(KeyError):
    pass


class FaultType(TypeError):
    pass


class FaultAttr(AttributeError):
    pass


FAULT_CLASSES = {"Exception": FaultExc, "KI": FaultKI, "GenExit": FaultGenExit, "SysExit": FaultSysExit,
                 "StopIter": FaultStopIter, "Assertion": FaultAssert, "Key": FaultKey, "Type": FaultType,
                 "Attr": FaultAttr}


class ErrInst(Exception):
    pass


class ErrFact(Exception):
    pass


class ErrInstF(Exception):
    """Variant (prog["errfalsy"]): the configured error objects are FALSY (an exception type with __bool__ / __len__) and
    compared by value (__eq__ without __hash__: they are UNHASHABLE, as a dataclass exception is)."""

    def __bool__(self) -> bool:
        return False

    def __eq__(self, other: Any) -> bool:
        return self is other


class ErrFactF(Exception):
    def __len__(self) -> int:
        return 0

    def __eq__(self, other: Any) -> bool:
        return self is other


class ErrInstB(BaseException):
    """Variant (prog["errbase"]): the configured errors derive from BaseException directly."""


class ErrFactB(BaseException):
    pass


class Susp:
    """Awaitable that suspends the coroutine once."""

    def __await__(self):  # type: ignore
        yield self


class BadBool:
    def __bool__(self) -> bool:
        raise FaultExc("bool")

    def __repr__(self) -> str:
        return "<BadBool>"


def _as_list(x: Any) -> list:
    return list(x) if isinstance(x, (list, tuple)) else []


class Runtime:
    """One rendered program."""

    def __init__(self, prog: dict, icontract_mod: Any, max_events: int = 4000) -> None:
        self.prog = prog
        self.ic = icontract_mod
        self.log = []  # type: List[dict]
        self.max_events = max_events
        self.args = {}  # type: Dict[int, V]
        self.vals = {}  # type: Dict[int, V]
        self.objs = {}  # type: Dict[int, Any]
        self.id2key = {}  # type: Dict[int, int]
        self.keepalive = []  # type: List[Any]
        self.err_inst = {}  # type: Dict[int, BaseException]
        self.err_class = {}  # type: Dict[int, type]
        self.last_fact = {}  # type: Dict[int, BaseException]
        self.faults = {}  # type: Dict[int, BaseException]
        self.nx = 0
        self.ns = 0
        self.tls = threading.local()
        self._pending_new = {}  # type: Dict[int, List[int]]   # per task: objects under construction
        self.alias = []  # type: List[Tuple[int, int]]   # (function whose body runs, member it was called as)
        self.fn_callable = {}  # type: Dict[int, Any]   # plain functions
        self.fn_name = {}  # type: Dict[int, str]
        self.fn_class = {}  # type: Dict[int, Any]
        self.classes = {}  # type: Dict[int, Any]
        self.sched = None  # type: Any
        self.on_emit = None  # type: Any
        self.filename = "<icv-prog-{}>".format(next(_SERIAL))
        self.source = ""
        self.namespace = {}  # type: Dict[str, Any]
        self.define_error = None  # type: Optional[BaseException]

    # ---------------------------------------------------------------- helpers
    def arg(self, a: int) -> V:
        if a not in self.args:
            self.args[a] = V("a", a)
        return self.args[a]

    # values that are Python's own singletons (a body may return them like any other value)
    SINGLETONS = {71: NotImplemented, 72: False, 73: Ellipsis, 74: 0, 75: ""}

    def val(self, v: int) -> Any:
        if v in self.SINGLETONS:
            return self.SINGLETONS[v]
        if v not in self.vals:
            self.vals[v] = V("v", v)
        return self.vals[v]

    def task(self) -> int:
        return getattr(self.tls, "t", 1)

    @property
    def pending_new(self) -> List[int]:
        return self._pending_new.setdefault(self.task(), [])

    def ip_raw(self) -> Any:
        """Ids the library regards as in progress for the current flow of control (read-only projection)."""
        try:
            chk = self.ic._checkers
            cur = chk._IN_PROGRESS.get()
        except Exception:  # pragma: no cover
            return "n/a"
        if cur is None:
            return ()
        try:
            if isinstance(cur, tuple) and len(cur) == 2 and isinstance(cur[1], (set, frozenset)):
                # the set is tagged with the flow that owns it: ask the library which set this flow uses
                # -- inside a throw-away copy of the context, so that observing never creates or replaces the set of
                # the current flow (the library's getter does that as a side effect)
                getter = getattr(chk, "_get_in_progress", None)
                # (the observation is the harness's own step: a preempting scheduler must not split it)
                self.tls.observing = True
                try:
                    cur = contextvars.copy_context().run(getter) if getter is not None else cur[1]
                finally:
                    self.tls.observing = False
            out = []
            for x in cur:
                if isinstance(x, tuple) and x:
                    x = x[0]
                out.append(x)
            return tuple(out)
        except TypeError:
            return "n/a"

    def emit(self, e: str, id_: int = 0, o: int = 0, a: int = 0, v: int = 0, cls: str = "", old: Any = (),
             res: int = 0) -> None:
        ev = {"e": e, "t": self.task(), "id": id_, "o": o, "a": a, "v": v, "cls": cls, "old": list(old),
              "res": res, "ip": "n/a" if (e in ("res", "throw") or getattr(self.tls, "foreign", False)) else self.ip_raw()}
        self.log.append(ev)
        if len(self.log) > self.max_events:
            raise HarnessAbort("watchdog: too many events")
        if self.on_emit is not None:
            self.on_emit(ev)

    def finalize_log(self) -> List[dict]:
        """Translate raw ids of the in-progress view into model keys."""
        import inspect as _inspect
        for x in self.keepalive:
            if _inspect.iscoroutine(x):
                x.close()
        for ev in self.log:
            ip = ev["ip"]
            if ip == "n/a":
                continue
            ev["ip"] = sorted(self.id2key.get(x, 999) for x in ip)
        return self.log

    def oid(self, obj: Any) -> int:
        for o, inst in self.objs.items():
            if inst is obj:
                return o
        return 0

    def vid(self, x: Any) -> int:
        for sv, sx in self.SINGLETONS.items():
            if x is sx and type(x) is type(sx):
                return sv
        o = self.oid(x) if x is not None and not isinstance(x, V) else 0
        if o:
            return 100 + o
        if isinstance(x, V):
            if x.kind == "v" and self.vals.get(x.n) is x:
                return x.n
            if x.kind == "a" and self.args.get(x.n) is x:
                return x.n
        return -1 if x is not None else 0

    def aid(self, x: Any) -> int:
        if x is None:
            return 0
        if isinstance(x, V) and x.kind == "a" and self.args.get(x.n) is x:
            return x.n
        return -1

    def classify(self, exc: BaseException) -> Any:
        """Map an exception object to (class label, identity ordinal)."""
        for fid, f in self.faults.items():
            if exc is f:
                label = {"FaultExc": "Exception", "FaultKI": "KI", "FaultGenExit": "GenExit", "FaultSysExit": "SysExit",
                         "FaultStopIter": "StopIter", "FaultAssert": "Assertion", "FaultKey": "Key",
                         "FaultType": "Type", "FaultAttr": "Attr",
                         "CancelledError": "Cancelled", "GeneratorExit": "GenExit"}.get(type(f).__name__,
                                                                                         type(f).__name__)
                return (label, fid)
        if type(exc) is GeneratorExit and type(self.faults.get(0)) is GeneratorExit:
            # closing a coroutine: CPython raises a fresh GeneratorExit in every delegated-to coroutine
            return ("GenExit", 0)
        for c, inst in self.err_inst.items():
            if exc is inst:
                return ("ErrInst", c)
        if isinstance(exc, (ErrInst, ErrInstB, ErrInstF)):
            return ("ErrInstCopy", getattr(exc, "c", -1))
        for c, last in self.last_fact.items():
            if exc is last:
                return ("ErrFact", c)
        if isinstance(exc, (ErrFact, ErrFactB, ErrFactF)):
            return ("ErrFactOther", getattr(exc, "c", -1))
        for c, k in self.err_class.items():
            if type(exc) is k:
                return ("ErrClass", c)
        name = type(exc).__name__
        msg = str(exc)
        if isinstance(exc, self.ic.ViolationError) and type(exc) is self.ic.ViolationError:
            return ("Violation", self._cid_from_text(msg, violation=True))
        if name in ("TypeError", "ValueError", "RuntimeError"):
            if name != "TypeError" and exc.__cause__ is not None:
                name += "C"   # raised by the library "from" the original exception
            return (name, self._cid_from_text(msg, violation=False))
        if name == "CancelledError":
            return ("Cancelled", 0)
        if name == "RecursionError":
            return ("RecursionError", 0)
        return (name, -1)

    _RE_ID = re.compile(r"(?:cond_|errf_|cap_|H\.cond\(|H\.cap\()(\d+)")

    def _cid_from_text(self, msg: str, violation: bool) -> int:
        lines = msg.split("\n")
        text = msg
        if violation and len(lines) > 1 and lines[0].startswith("File "):
            text = lines[1]
        m = self._RE_ID.search(text)
        if m:
            return int(m.group(1))
        m = self._RE_ID.search(msg)
        if m:
            return int(m.group(1))
        # fall back on the location of the decorator ("File <generated source>, line N")
        m = re.search(r"File (\S+), line (\d+)", msg)
        if m and m.group(1) == self.filename:
            src_lines = self.source.split("\n")
            n = int(m.group(2))
            if 1 <= n <= len(src_lines):
                m2 = self._RE_ID.search(src_lines[n - 1])
                if m2:
                    return int(m2.group(1))
        return -1

    # ------------------------------------------------------- user-code runtime
    def _enter(self) -> int:
        self.nx += 1
        return self.nx

    def _maybe_fault(self, fid: int) -> None:
        fault = self.prog["fault"]
        if fid > 0 and (fault["at"] == fid or fid in fault.get("more", [])):
            exc = FAULT_CLASSES[fault["kind"]]("fault@{}".format(fid))
            self.faults[fid] = exc
            raise exc

    def _fault_label(self, exc: BaseException) -> Any:
        return self.classify(exc)

    def run_script(self, script: list, u: str, a: int = 0, o: int = 0) -> None:
        for op in script:
            if op.get("when", 0) not in (0, a):
                continue
            if op["op"] == "call":
                self.do_call(dict(op, o=o) if op["o"] == -1 else op, u)
            elif op["op"] == "spawn":
                self.sched.spawn(op["f"], copy_ctx=(op["a"] == 1))
                self.emit("spawn", op["f"], 0, op["a"])
            elif op["op"] == "await":
                raise RuntimeError("await in a sync script")

    async def run_script_async(self, script: list, u: str, a: int = 0, o: int = 0) -> None:
        for op in script:
            if op.get("when", 0) not in (0, a):
                continue
            if op["op"] == "call":
                await self.do_call_async(dict(op, o=o) if op["o"] == -1 else op, u)
            elif op["op"] == "await":
                self.emit("susp", 0)
                await self.sched.suspension()
            elif op["op"] == "spawn":
                self.sched.spawn(op["f"], copy_ctx=(op["a"] == 1))
                self.emit("spawn", op["f"], 0, op["a"])

    def resolve(self, f: int, o: int, kw: int = 0) -> Any:
        """The callable to apply to the argument; kw = 1: the argument is passed by keyword, kw = 2: a method is
        called through its class with `self` passed by keyword as well."""
        fn = self.prog["fn"][f - 1]
        kind = fn["kind"]
        if kind == "func":
            if kw:
                plain = self.fn_callable[f]
                return lambda x: plain(x=x)
            return self.fn_callable[f]
        if kind == "init" and o in self.objs:
            # super().__init__(...) from a derived constructor: the base constructor on the same instance
            inst0 = self.objs[o]
            base_cls = self.fn_class[f]
            return lambda x: base_cls.__init__(inst0, x)
        if kind == "init":
            cls = self.classes[self.prog["obj"][o - 1]["cls"]] if o and o <= len(self.prog["obj"]) else self.fn_class[f]

            def construct(x: Any) -> Any:
                self.pending_new.append(o)
                try:
                    inst = cls(x)
                finally:
                    if self.pending_new and self.pending_new[-1] == o:
                        self.pending_new.pop()
                self.register_obj(o, inst)
                return None

            return construct
        if kind == "new":
            cls = self.fn_class[f]

            def construct_new(x: Any) -> Any:
                self.pending_new.append(o)
                try:
                    inst = cls(x)
                finally:
                    if self.pending_new and self.pending_new[-1] == o:
                        self.pending_new.pop()
                self.register_obj(o, inst)
                return inst

            return construct_new
        if kind in ("static", "class"):
            return getattr(self.fn_class[f], self.fn_name[f])
        inst = self.objs[o]
        name = self.fn_name[f]
        if kind in ("method", "protected", "private") and kw == 2:
            # call through the class with `self` passed by keyword
            unbound = getattr(type(inst), name)
            return lambda x: unbound(self=inst, x=x)
        if kind in ("method", "protected", "private") and kw == 1:
            bound = getattr(inst, name)
            return lambda x: bound(x=x)
        if kind in ("method", "protected", "private"):
            return getattr(inst, name)
        if kind == "dunder":
            return lambda x: inst(x)
        if kind == "repr":
            return lambda x: (repr(inst), None)[1]
        if kind == "setattr":
            return lambda x: setattr(inst, "attr", x)
        if kind == "getter":
            return lambda x: getattr(inst, name)
        if kind == "setter":
            return lambda x: setattr(inst, name, x)
        if kind == "deleter":
            return lambda x: delattr(inst, name)
        raise NotImplementedError(kind)

    def register_obj(self, o: int, inst: Any) -> None:
        if o not in self.objs:
            self.objs[o] = inst
            self.id2key[id(inst)] = 100 + o
            self.keepalive.append(inst)

    def _ret_event(self, callee: int, outcome: Any) -> None:
        if outcome[0] == "ret":
            self.emit("ret", callee, 0, 0, outcome[1], "ret")
        else:
            self.emit("ret", callee, 0, 0, outcome[2], outcome[1])

    def do_call(self, op: dict, u: str) -> None:
        f, o, a = op["f"], op["o"], op["a"]
        extra = {"result": 1} if op.get("bad") else {}   # a keyword named like the postconditions' reserved name
        self.emit("call", f, o, a, 1 if extra else 0)
        alias_of = self.prog["fn"][f - 1].get("alias_of", 0)
        try:
            callee = self.resolve(f, o, op.get("kw", 0))
            if self.prog["fn"][f - 1]["async"]:
                result = self.sched.run_coro_inline(callee(self.arg(a), **extra))
            elif alias_of:
                # the member is a second name of another function (reset = __init__): the body that runs reports itself
                # as the member that was called
                self.alias.append((alias_of, f))
                try:
                    result = callee(self.arg(a), **extra)
                finally:
                    self.alias.pop()
            else:
                result = callee(self.arg(a), **extra)
        except HarnessAbort:
            raise
        except BaseException as exc:  # noqa
            cls, v = self.classify(exc)
            self.emit("ret", f, 0, 0, v, cls)
            if u != "drv":
                raise
            return
        self.emit("ret", f, 0, 0, self.vid(result), "ret")

    async def do_call_async(self, op: dict, u: str) -> None:
        f, o, a = op["f"], op["o"], op["a"]
        extra = {"result": 1} if op.get("bad") else {}
        self.emit("call", f, o, a, 1 if extra else 0)
        try:
            callee = self.resolve(f, o, op.get("kw", 0))
            if self.prog["fn"][f - 1]["async"]:
                result = await callee(self.arg(a), **extra)
            else:
                result = callee(self.arg(a), **extra)
        except HarnessAbort:
            raise
        except BaseException as exc:  # noqa
            cls, v = self.classify(exc)
            self.emit("ret", f, 0, 0, v, cls)
            if u != "drv":
                raise
            return
        self.emit("ret", f, 0, 0, self.vid(result), "ret")

    # seen-values helpers -----------------------------------------------------
    def _seen(_h, kw: dict, owner: int) -> Any:
        """Project what a contract callable received: (o, a, old, res)."""
        o = _h.oid(kw["self"]) if "self" in kw else 0
        if "self" in kw and o == 0 and _h.pending_new:
            # the instance under construction: register on first sight
            o = _h.pending_new[-1]
            _h.register_obj(o, kw["self"])
        a = _h.aid(kw["x"]) if "x" in kw else 0
        res = _h.vid(kw["result"]) if "result" in kw else 0
        old = []
        if "OLD" in kw and owner:
            for s in _h.prog["fn"][owner - 1]["snap"]:
                try:
                    old.append(_h.vid(getattr(kw["OLD"], "s{}".format(s))))
                except AttributeError:
                    old.append(-2)
        return o, a, old, res

    def _cond_value(self, c: int, role: str, o: int, a: int) -> Any:
        con = self.prog["con"][c - 1]
        if role == "inv":
            st = getattr(self.objs.get(o), "_st", 0) if o in self.objs else 0
            truth = con["truth"][st]
        else:
            truth = con["truth"][a if a >= 0 else 0]
        return truth

    def cond(_h, c: int, role: str, owner: int, **kw: Any) -> Any:
        con = _h.prog["con"][c - 1]
        o, a, old, res = _h._seen(kw, owner)
        fid = _h._enter()
        _h.emit("cond.in", c, o, a, 0, "", old, res)
        try:
            _h._maybe_fault(fid)
            _h.run_script(_as_list(con["script"]), "cond", a, o)
        except HarnessAbort:
            raise
        except BaseException as exc:  # noqa
            cls, v = _h.classify(exc)
            _h.emit("cond.out", c, o, a, v, cls)
            raise
        rv = con["rv"]
        owner_async = bool(owner) and _h.prog["fn"][owner - 1]["async"]
        if rv == "raises":
            # the condition cannot be evaluated for this call (it is only defined when an earlier one holds)
            exc = FAULT_CLASSES["Exception"]("cond{}".format(c))
            _h.faults[900 + c] = exc
            _h.emit("cond.out", c, o, a, 900 + c, "Exception")
            raise exc
        if rv == "coro" and not owner_async:
            _h.emit("cond.out", c, o, a, 2, "ret")
            coro = _h._dummy_coro()
            _h.keepalive.append(coro)
            return coro
        if rv == "badbool":
            _h.emit("cond.out", c, o, a, 3, "ret")
            return BadBool()
        truth = _h._cond_value(c, role, o, a)
        _h.emit("cond.out", c, o, a, 1 if truth else 0, "ret")
        return truth

    async def cond_async(_h, c: int, role: str, owner: int, **kw: Any) -> Any:
        con = _h.prog["con"][c - 1]
        o, a, old, res = _h._seen(kw, owner)
        fid = _h._enter()
        _h.emit("cond.in", c, o, a, 0, "", old, res)
        try:
            _h._maybe_fault(fid)
            await _h.run_script_async(_as_list(con["script"]), "cond", a, o)
        except HarnessAbort:
            raise
        except BaseException as exc:  # noqa
            cls, v = _h.classify(exc)
            _h.emit("cond.out", c, o, a, v, cls)
            raise
        truth = _h._cond_value(c, role, o, a)
        _h.emit("cond.out", c, o, a, 1 if truth else 0, "ret")
        return truth

    def cond_future(_h, c: int, role: str, owner: int, **kw: Any) -> Any:
        """A sync condition returning an awaitable that is not a coroutine object."""
        o, a, old, res = _h._seen(kw, owner)
        _h._enter()
        _h.emit("cond.in", c, o, a, 0, "", old, res)
        truth = _h._cond_value(c, role, o, a)
        raising = _h.prog["con"][c - 1]["rv"] == "futureraise"
        _h.emit("cond.out", c, o, a, 5 if raising else 4, "ret")

        class _Fut:
            def __await__(self_inner):  # type: ignore
                if raising:
                    # awaiting the result fails: the exception object is registered so that it is recognised
                    exc = FaultExc("await@{}".format(c))
                    _h.faults[900 + c] = exc
                    raise exc
                return truth
                yield  # pragma: no cover

        return _Fut()

    async def _dummy_coro_fn(self) -> bool:
        return True

    def _dummy_coro(self) -> Any:
        return self._dummy_coro_fn()

    def cap(_h, s: int, owner: int, **kw: Any) -> Any:
        snp = _h.prog["snp"][s - 1]
        o, a, _, _ = _h._seen(kw, 0)
        fid = _h._enter()
        _h.emit("cap.in", s, o, a)
        try:
            _h._maybe_fault(fid)
            _h.run_script(_as_list(snp["script"]), "cap", a, o)
        except HarnessAbort:
            raise
        except BaseException as exc:  # noqa
            cls, v = _h.classify(exc)
            _h.emit("cap.out", s, o, a, v, cls)
            raise
        owner_async = bool(owner) and _h.prog["fn"][owner - 1]["async"]
        if snp["rv"] == "coro" and not owner_async:
            _h.emit("cap.out", s, o, a, 2, "ret")
            coro = _h._dummy_coro()
            _h.keepalive.append(coro)
            return coro
        value = snp["val"] + (a if snp.get("byarg") else 0)
        _h.emit("cap.out", s, o, a, value, "ret")
        if snp["rv"] == "avalue":
            # the captured value itself is an awaitable object (not a coroutine): it is what OLD must hold
            if not isinstance(_h.vals.get(value), AwaitableV):
                _h.vals[value] = AwaitableV("v", value)
        return _h.val(value)

    async def cap_async(_h, s: int, owner: int, **kw: Any) -> Any:
        snp = _h.prog["snp"][s - 1]
        o, a, _, _ = _h._seen(kw, 0)
        fid = _h._enter()
        _h.emit("cap.in", s, o, a)
        try:
            _h._maybe_fault(fid)
            await _h.run_script_async(_as_list(snp["script"]), "cap", a, o)
        except HarnessAbort:
            raise
        except BaseException as exc:  # noqa
            cls, v = _h.classify(exc)
            _h.emit("cap.out", s, o, a, v, cls)
            raise
        value = snp["val"] + (a if snp.get("byarg") else 0)
        _h.emit("cap.out", s, o, a, value, "ret")
        return _h.val(value)

    @staticmethod
    def wrapped(fn: Any) -> Any:
        """An ordinary pass-through decorator written with functools.wraps."""
        import functools

        @functools.wraps(fn)
        def wrapper(*args: Any, **kwargs: Any) -> Any:
            return fn(*args, **kwargs)

        return wrapper

    def errf(_h, c: int, role: str, owner: int, **kw: Any) -> Any:
        con = _h.prog["con"][c - 1]
        o, a, old, res = _h._seen(kw, owner)
        fid = _h._enter()
        _h.emit("errf.in", c, o, a, 0, "", old, res)
        try:
            _h._maybe_fault(fid)
            _h.run_script(_as_list(con["escript"]), "errf", a, o)
        except HarnessAbort:
            raise
        except BaseException as exc:  # noqa
            cls, v = _h.classify(exc)
            _h.emit("errf.out", c, o, a, v, cls)
            raise
        if con["err"] == "factory":
            exc = (ErrFactF if _h.prog.get("errfalsy") else ErrFactB if _h.prog.get("errbase") else ErrFact)("fact{}".format(c))
            exc.c = c  # type: ignore
            _h.last_fact[c] = exc
            _h.emit("errf.out", c, o, a, 1, "ret")
            return exc
        _h.emit("errf.out", c, o, a, 0, "ret")
        return "not an exception"

    def _body_common_in(self, f: int, self_obj: Any, x: Any) -> Any:
        fn = self.prog["fn"][f - 1]
        o = 0
        if self_obj is not None:
            o = self.oid(self_obj)
            if o == 0 and self.pending_new:
                o = self.pending_new[-1]
                self.register_obj(o, self_obj)
        a = self.aid(x)
        fid = self._enter()
        self.emit("body.in", f, o, a)
        return fn, o, a, fid

    def _body_out(self, fn: dict, f: int, o: int, a: int, self_obj: Any) -> Any:
        out = fn["out"][a if a >= 0 else 0]
        if fn["setst"] > 0 and self_obj is not None:
            object.__setattr__(self_obj, "_st", fn["setst"])
        if out["k"] == "ret":
            self.emit("body.out", f, o, a, out["v"], "ret")
            return self.val(out["v"]) if out["v"] else None
        exc = FAULT_CLASSES[out["cls"]]("body{}".format(f))
        self.faults[out["v"]] = exc
        self.emit("body.out", f, o, a, out["v"], out["cls"])
        raise exc

    def body(self, f: int, self_obj: Any, x: Any) -> Any:
        if self.alias and self.alias[-1][0] == f:
            f = self.alias[-1][1]
        fn, o, a, fid = self._body_common_in(f, self_obj, x)
        try:
            self._maybe_fault(fid)
            self.run_script(_as_list(fn["script"]), "body", a, o)
        except HarnessAbort:
            raise
        except BaseException as exc:  # noqa
            cls, v = self.classify(exc)
            self.emit("body.out", f, o, a, v, cls)
            raise
        return self._body_out(fn, f, o, a, self_obj)

    async def body_async(self, f: int, self_obj: Any, x: Any) -> Any:
        fn, o, a, fid = self._body_common_in(f, self_obj, x)
        try:
            self._maybe_fault(fid)
            await self.run_script_async(_as_list(fn["script"]), "body", a, o)
        except HarnessAbort:
            raise
        except BaseException as exc:  # noqa
            cls, v = self.classify(exc)
            self.emit("body.out", f, o, a, v, cls)
            raise
        return self._body_out(fn, f, o, a, self_obj)
