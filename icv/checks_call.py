"""Checks decided with the run-time machine (spec/ICCall.tla): model checking + replay + trace validation."""
import json
import os
import random
from typing import Any, Callable, Dict, Iterable, List, Optional, Set, Tuple

from icv import callcheck as C
from icv import families as F
from icv.attribute import attribute
from icv.result import CheckResult, MachineryError, load_known

# Deviation switches that describe the implementation as it currently is.  A switch stays TRUE only for a
# recorded, unrepaired finding (known_findings.json names it); after a "fix:" commit it is FALSE.
def current_switches() -> Dict[str, bool]:
    sw = dict(C.ALL_OFF)
    for k in load_known():
        if k.get("status") == "known" and k.get("switch"):
            sw[k["switch"]] = True
    return sw


def known_by_switch() -> Dict[str, dict]:
    return {k["switch"]: k for k in load_known() if k.get("status") == "known" and k.get("switch")}


def _sched_of(log: List[list], mode: str = "thread") -> List[int]:
    """The scheduler's decisions encoded in a log: thread-like = who emits each event; asyncio-like = who is
    started / resumed / cancelled (a task then runs until it suspends or ends)."""
    if mode != "async":
        return [ev[1] for ev in log]
    out, started = [], set()
    for ev in log:
        if ev[0] in ("res", "throw") or ev[1] not in started:
            out.append(ev[1])
            started.add(ev[1])
    return out


def _outcome_stats(logs: Dict[int, List[list]]) -> Dict[str, int]:
    stats = {}  # type: Dict[str, int]
    for pid, ls in logs.items():
        for log in ls:
            for ev in log:
                if ev[0] == "ret" and ev[1] >= 1:
                    stats[ev[6]] = stats.get(ev[6], 0) + 1
    return stats


def _segments(log: List[list]) -> List[dict]:
    """Top-level calls of every task: callee, whether its body was entered, what the caller got."""
    depth = {}  # type: Dict[int, int]
    cur = {}  # type: Dict[int, dict]
    out = []
    for ev in log:
        e, t = ev[0], ev[1]
        if e == "call":
            d = depth.get(t, 0)
            if d == 0:
                cur[t] = {"t": t, "f": ev[2], "o": ev[3], "a": ev[4], "body": False, "nested": 0, "ret": None}
            else:
                cur[t]["nested"] += 1
            depth[t] = d + 1
        elif e == "ret":
            d = depth.get(t, 0) - 1
            depth[t] = max(d, 0)
            if d == 0 and t in cur:
                cur[t]["ret"] = (ev[6], ev[5])
                out.append(cur.pop(t))
        elif e == "body.in" and t in cur and depth.get(t, 0) == 1 and ev[2] == cur[t]["f"]:
            cur[t]["body"] = True
    return out


def verdict_clauses(expected: List[list], recorded: List[list], prog: dict) -> List[Tuple[str, str]]:
    """Verdict-level comparison of the top-level calls (independent of where the logs diverge first)."""
    from icv.attribute import role_of, VIOLATION_CLS
    res = []
    for se, sr in zip(_segments(expected), _segments(recorded)):
        if (se["t"], se["f"], se["a"]) != (sr["t"], sr["f"], sr["a"]) or se["ret"] is None or sr["ret"] is None:
            break
        if se["nested"] or sr["nested"]:
            continue   # nested calls: re-entrancy semantics, judged by the event-level clauses
        if se["ret"] == sr["ret"] and se["body"] == sr["body"]:
            continue
        ecls, ev_ = se["ret"]
        rcls, rv_ = sr["ret"]
        what = "call of callable {} with argument {}: expected body entered={} outcome {}, observed body entered={} " \
               "outcome {}".format(se["f"], se["a"], se["body"], se["ret"], sr["body"], sr["ret"])
        erole = role_of(prog, ev_) if ecls in VIOLATION_CLS else ""
        rrole = role_of(prog, rv_) if rcls in VIOLATION_CLS else ""
        if se["body"] and not sr["body"] and rrole == "pre":
            res.append(("pre.blocked_while_effpre_true", what))
        elif not se["body"] and sr["body"] and erole == "pre":
            res.append(("pre.body_entered_while_effpre_false", what))
        elif ecls == "ret" and rrole == "post":
            res.append(("post.wrong_culprit", what))
        elif erole == "post" and rcls == "ret":
            res.append(("post.skipped_on_return", what))
        elif erole == "inv" and rcls == "ret":
            res.append(("inv.missing_after", what))
        elif ecls == "ret" and rrole == "inv":
            res.append(("inv.unexpected_evaluation", what))
        elif ecls == "ret" and rcls == "ret" and ev_ != rv_:
            res.append(("ret.result_identity", what))
        elif rcls in ("TypeError", "RuntimeError", "RuntimeErrorC") and ecls != rcls and (ecls == "ret" or ecls in VIOLATION_CLS):
            # the caller was due the result or the contract's error; building a message / binding the arguments of a
            # condition produced an error of the library instead
            res.append(("msg.replaced_by_other_exception", what))
        elif ecls in VIOLATION_CLS and erole in ("pre", "post", "inv") and rcls in (
                "Exception", "KI", "SysExit", "GenExit", "StopIter", "Assertion", "Key", "Type", "Attr"):
            # the violated contract's error was due; the caller got an exception of user code instead (raised by a
            # condition that was not to be evaluated any more)
            res.append((erole + ".error_replaced", what))
        elif ecls in VIOLATION_CLS and rcls not in ("ret", ecls):
            # a violation was due in the contract's configured form; the caller got something of another class
            res.append(("err.form_dispatch", what))
    return res


def _verdict_extra_props(expected: List[list], recorded: List[list], clause: str) -> set:
    """A configured error (class / instance / factory result) was due and the caller got a plain return: C09 as well."""
    if clause not in ("pre.body_entered_while_effpre_false", "post.skipped_on_return", "inv.missing_after"):
        return set()
    for se, sr in zip(_segments(expected), _segments(recorded)):
        if se["ret"] is None or sr["ret"] is None:
            break
        if se["ret"] != sr["ret"] or se["body"] != sr["body"]:
            return {"C09"} if se["ret"][0] in ("ErrClass", "ErrInst", "ErrFact") and sr["ret"][0] == "ret" else set()
    return set()


def count_clauses(expected: List[list], recorded: List[list], prog: dict) -> List[Tuple[str, str]]:
    """Counting oracle: how often each capture / condition was evaluated in the whole run, compared with the behaviour of
    the specification (C08: each capture exactly once per checked call; C16: each condition at most once per check)."""
    from icv.attribute import role_of
    res = []

    def counts(log: List[list], kind: str) -> Dict[int, int]:
        out = {}  # type: Dict[int, int]
        for ev in log:
            if ev[0] == kind:
                out[ev[2]] = out.get(ev[2], 0) + 1
        return out
    if not recorded or recorded[-1][0] == "abort" or len(recorded) < 2:
        return res
    ce, cr = counts(expected, "cap.in"), counts(recorded, "cap.in")
    for s_ in sorted(set(ce) | set(cr)):
        if cr.get(s_, 0) > ce.get(s_, 0):
            res.append(("cap.repeated", "capture {} was evaluated {} times, the specification's behaviour evaluates it {} "
                                        "times".format(s_, cr.get(s_, 0), ce.get(s_, 0))))
            break
    return res


def _mask_ip(log: List[list]) -> List[list]:
    return [ev[:9] + [[-1]] for ev in log]


def diagnose(res: CheckResult, name: str, mism: List[dict], cur: Dict[str, bool], async_sched: bool) -> int:
    """Validate the recorded traces that differ from the model's prediction; attribute every rejection.

    Each trace is validated twice: as recorded, and with the in-progress views masked, so that a divergence of
    the suspension state (C10/C11/C12 clauses) does not hide a later behavioural divergence (and vice versa).
    """
    if not mism:
        return 0
    batch = mism[:200]
    # verdict-level oracle: what the top-level callers got vs what the specification's behaviour gives them
    for it in batch:
        if it.get("expected"):
            for clause, what in (verdict_clauses(it["expected"], it["log"], it["prog"])[:1]
                                 + count_clauses(it["expected"], it["log"], it["prog"])[:1]):
                from icv.attribute import CLAUSES
                props = set(CLAUSES.get(clause, set())) | _verdict_extra_props(it["expected"], it["log"], clause)
                what = "family {}: {} (program {})".format(name, what, it["pid"])
                if res.prop in props:
                    res.violation(clause, what, {"signature": clause, "unit": name, "program": it["prog"],
                                                 "recorded": it["log"], "expected": it["expected"]})
                else:
                    res.note("nonconformance outside {} (clause={} -> {}) in unit {}".format(
                        res.prop, clause, ",".join(sorted(props)), name))
    items = []
    for it in batch:
        items.append(it)
        items.append(dict(it, log=_mask_ip(it["log"]), masked=True))
    rv, verdicts = C.validate_traces(items, cur, async_sched)
    if rv.error:
        raise MachineryError("trace validation failed: " + rv.error[:1500])
    ndiag = 0
    for it, vd in zip(items, verdicts):
        if vd is None:
            raise MachineryError("no verdict for trace of program {}".format(it["pid"]))
        ndiag += 1
        if vd["verdict"] == "ok":
            if not it.get("masked"):
                res.note("unit {}: a trace differs from the model's log but is accepted (don't-care)".format(name))
            continue
        if vd["verdict"] == "truncated":
            clause, props = "exc.dropped", {"C11"}
            vd = dict(vd, exp=["?"], act=["eot"])
        else:
            at = vd.get("at", 0)
            prev = it["log"][at - 2] if isinstance(at, int) and 2 <= at <= len(it["log"]) + 1 else None
            # the callable whose call is in progress in the diverging task (the last unanswered "call" event)
            task = (vd.get("act") or vd.get("exp") or [None, 0])[1]
            depth, callee = 0, 0
            for ev in reversed(it["log"][:max(0, (at or 1) - 1)]):
                if ev[1] != task:
                    continue
                if ev[0] == "ret":
                    depth += 1
                elif ev[0] == "call":
                    if depth == 0:
                        callee = ev[2]
                        break
                    depth -= 1
            vd = dict(vd, callee_async=bool(callee and 1 <= callee <= len(it["prog"]["fn"]) and it["prog"]["fn"][callee - 1]["async"]))
            clause, props = attribute(vd, it["prog"], prev)
        what = "family {}: expected {} but the implementation did {} (event {} of program {}{})".format(
            name, vd.get("exp"), vd.get("act"), vd.get("at"), it["pid"],
            ", schedule " + "".join(str(e[1]) for e in it["log"]) if len(it["prog"]["drv"]) > 1 else "")
        if res.prop in props:
            res.violation(clause, what, {"signature": clause, "unit": name, "program": it["prog"],
                                         "recorded": it["log"], "expected": it.get("expected"), "diagnosis": vd})
        elif not props:
            raise MachineryError("unclassified divergence ({}): {}".format(clause, what))
        else:
            res.note("nonconformance outside {} (clause={} -> {}) in unit {}".format(
                res.prop, clause, ",".join(sorted(props)), name))
    return ndiag


def call_unit(res: CheckResult, name: str, progs: List[dict], ic: Any, mode: str = "single",
              invariants: Optional[List[str]] = None, max_behaviours_per_prog: int = 4,
              rng: Optional[random.Random] = None, require_outcomes: Iterable[str] = ()) -> None:
    """One family: obligations on the switch-off model, conformance of the implementation, diagnosis."""
    rng = rng or random.Random(res.seed)
    progs = F.number(progs)
    async_sched = (mode == "async")
    cur = current_switches()
    # 1. the property's obligations hold on the specification with every deviation switch off
    r_off, logs_off = C.model_check(progs, C.ALL_OFF, async_sched, invariants, emit_logs=(cur == C.ALL_OFF))
    if not r_off.ok:
        raise MachineryError("unit {}: the switch-off specification fails its own obligation {} / {}".format(
            name, r_off.violated, (r_off.error or "")[:1500]))
    res.states += r_off.distinct
    res.transitions += r_off.states
    logs = logs_off
    # 2. the model of the implementation as it is (only differs while a recorded finding is unrepaired)
    if cur != C.ALL_OFF:
        r_cur, logs = C.model_check(progs, cur, async_sched, [], emit_logs=True)
        if not r_cur.ok:
            raise MachineryError("unit {}: as-is model: {}".format(name, (r_cur.error or r_cur.violated)))
        res.states += r_cur.distinct
        res.transitions += r_cur.states
        r_chk, _ = C.model_check(progs, cur, async_sched, invariants, emit_logs=False)
        if r_chk.violated:
            for sw, k in known_by_switch().items():
                if k.get("property") == res.prop or res.prop in k.get("also", []):
                    res.known(k["signature"], "{} [model-level counterexample: obligation {} fails with {}=TRUE "
                                              "on family {}]".format(k["what"], r_chk.violated, sw, name))
    missing = [p["pid"] for p in progs if p["pid"] not in logs]
    if missing:
        # behaviours longer than the depth bound of the exploration (MaxDepth levels) are cut off: such programs are
        # left out of this run (recorded in the evidence); runaway recursion in the model is a violation of `Bounded`,
        # not a missing log.  More than a quarter of a family missing is a failure of the machinery.
        if 4 * len(missing) > len(progs):
            raise MachineryError("unit {}: {} of {} programs have no terminated behaviour in the model".format(
                name, len(missing), len(progs)))
        res.note("unit {}: {} of {} programs have behaviours beyond the depth bound of the exploration and are left out".format(
            name, len(missing), len(progs)))
        gone = set(missing)
        progs = [p for p in progs if p["pid"] not in gone]
    stats = _outcome_stats(logs)
    for oc in require_outcomes:
        if not stats.get(oc):
            raise MachineryError("unit {} is vacuous: no behaviour ends with outcome {}".format(name, oc))
    # 3. replay every behaviour on the implementation
    mism = []  # type: List[dict]
    nrun = 0
    for p in progs:
        behs = logs[p["pid"]]
        if len(behs) > max_behaviours_per_prog:
            behs = rng.sample(behs, max_behaviours_per_prog)
        for exp in behs:
            expn = [C.norm_expected(e) for e in exp]
            act, rt = C.run_impl(p, ic, schedule=_sched_of(expn, mode) if mode != "single" else None, mode=mode, rng=rng)
            nrun += 1
            if not C.same_log(expn, act):
                mism.append({"pid": p["pid"], "prog": p, "log": act, "expected": expn})
            elif len(res.samples) < 3 and (nrun % 997 == 1):
                res.samples.append({"unit": name, "program": p, "events": act[:40]})
    res.traces += nrun
    res.evaluations += nrun
    # 4. diagnose mismatches with the trace specification (named clause -> properties)
    ndiag = diagnose(res, name, mism, cur, async_sched)
    res.add_unit(name, programs=len(progs), states=r_off.distinct, behaviours_replayed=nrun, mismatches=len(mism),
                 diagnosed=ndiag, outcomes=stats, mode=mode, left_out_beyond_depth_bound=len(missing))


def random_unit(res: CheckResult, name: str, progs: List[dict], ic: Any, mode: str = "single",
                rng: Optional[random.Random] = None) -> None:
    """Programs beyond the exhaustive bounds: run on the implementation, validate every recorded trace."""
    rng = rng or random.Random(res.seed)
    progs = F.number(progs)
    cur = current_switches()
    items = []
    for p in progs:
        act, rt = C.run_impl(p, ic, schedule=None, mode=mode, rng=rng)
        items.append({"pid": p["pid"], "prog": p, "log": act})
    rv, verdicts = C.validate_traces(items, cur, mode == "async")
    if rv.error:
        raise MachineryError("trace validation failed: " + rv.error[:1500])
    res.states += rv.distinct
    res.transitions += rv.states
    res.traces += len(items)
    res.evaluations += len(items)
    rejected = 0
    for it, vd in zip(items, verdicts):
        if vd is None:
            raise MachineryError("no verdict for random trace {}".format(it["pid"]))
        if vd["verdict"] == "ok":
            continue
        rejected += 1
        if vd["verdict"] == "truncated":
            clause, props = "exc.dropped", {"C11"}
            vd = dict(vd, exp=["?"], act=["eot"])
        else:
            clause, props = attribute(vd, it["prog"])
        what = "random family {}: expected {} but the implementation did {} (event {})".format(
            name, vd.get("exp"), vd.get("act"), vd.get("at"))
        if res.prop in props:
            res.violation(clause, what, {"signature": clause, "unit": name, "program": it["prog"],
                                         "recorded": it["log"], "diagnosis": vd})
        elif not props:
            raise MachineryError("unclassified divergence ({}): {}".format(clause, what))
        else:
            res.note("nonconformance outside {} (clause={} -> {}) in unit {}".format(
                res.prop, clause, ",".join(sorted(props)), name))
    if items and len(res.samples) < 5:
        res.samples.append({"unit": name, "program": items[0]["prog"], "events": items[0]["log"][:40]})
    res.add_unit(name, programs=len(progs), traces_validated=len(items), rejected=rejected, mode=mode,
                 trace_states=rv.distinct)


def _run_in_fresh_interpreter(jobs: List[dict]) -> List[List[list]]:
    """Run (program, schedule) jobs in a fresh interpreter that imports icontract before asyncio."""
    import subprocess
    import sys
    import json as _json
    import shutil
    from icv import tlc
    wd = tlc.scratch_dir("icv-imp-")
    try:
        jf = os.path.join(wd, "jobs.json")
        with open(jf, "w") as fh:
            _json.dump(jobs, fh)
        env = dict(os.environ)
        env["ICV_REPO_PATH"] = os.environ.get("ICV_REPO", "/repo")
        env["ICV_REPO"] = env["ICV_REPO_PATH"]
        p = subprocess.run([sys.executable, os.path.join(tlc.VERIF, "icv", "importorder_worker.py"), jf], env=env,
                           stdout=subprocess.PIPE, stderr=subprocess.PIPE, timeout=1800, cwd=tlc.VERIF)
        if p.returncode != 0:
            raise MachineryError("import-order worker failed: " + p.stderr.decode()[-1500:])
        txt = p.stdout.decode()
        return _json.loads(txt[txt.index("["):])
    finally:
        shutil.rmtree(wd, ignore_errors=True)


def conc_unit(res: CheckResult, name: str, progs: List[dict], ic: Any, mode: str, nsim: int,
              rng: Optional[random.Random] = None, fresh_interpreter: bool = False) -> None:
    """Concurrent family: every interleaving model-checked (history hidden by a VIEW), sampled schedules replayed."""
    rng = rng or random.Random(res.seed)
    progs = F.number(progs)
    async_sched = (mode == "async")
    cur = current_switches()
    r_off, _ = C.model_check(progs, C.ALL_OFF, async_sched, None, emit_logs=False, view_no_log=True)
    if not r_off.ok:
        raise MachineryError("unit {}: the switch-off specification fails its own obligation {} / {}".format(
            name, r_off.violated, (r_off.error or "")[:1500]))
    res.states += r_off.distinct
    res.transitions += r_off.states
    if cur != C.ALL_OFF:
        r_chk, _ = C.model_check(progs, cur, async_sched, None, emit_logs=False, view_no_log=True)
        if r_chk.violated:
            for sw, k in known_by_switch().items():
                if k.get("property") == res.prop or res.prop in k.get("also", []):
                    res.known(k["signature"], "{} [model-level counterexample: obligation {} fails with {}=TRUE "
                                              "on family {}]".format(k["what"], r_chk.violated, sw, name))
    # sampled behaviours (schedules) of the model of the implementation as it is
    r_sim, logs = C.model_check(progs, cur, async_sched, [], emit_logs=True, simulate=nsim, seed=res.seed + 1)
    if r_sim.error:
        raise MachineryError("unit {}: simulation failed: {}".format(name, r_sim.error[:1500]))
    mism = []
    nrun = 0
    seen = set()
    jobs = []
    for p in progs:
        for exp in logs.get(p["pid"], []):
            expn = [C.norm_expected(e) for e in exp]
            key = (p["pid"], tuple(e[1] for e in expn))
            if key in seen:
                continue
            seen.add(key)
            jobs.append((p, expn))
    acts = None
    if fresh_interpreter:
        acts = _run_in_fresh_interpreter([{"prog": p, "schedule": _sched_of(expn, mode)} for p, expn in jobs])
    for n_job, (p, expn) in enumerate(jobs):
        if True:
            if acts is not None:
                act = acts[n_job]
            else:
                act, rt = C.run_impl(p, ic, schedule=_sched_of(expn, mode), mode=mode, rng=rng)
            nrun += 1
            if not C.same_log(expn, act):
                mism.append({"pid": p["pid"], "prog": p, "log": act, "expected": expn})
            elif len(res.samples) < 4 and nrun % 97 == 1:
                res.samples.append({"unit": name, "program": p, "events": act[:60]})
    if nrun == 0:
        raise MachineryError("unit {}: no behaviour sampled".format(name))
    res.traces += nrun
    res.evaluations += nrun
    ndiag = diagnose(res, name, mism, cur, async_sched)
    res.add_unit(name, programs=len(progs), states=r_off.distinct, schedules_replayed=nrun, mismatches=len(mism),
                 diagnosed=ndiag, mode=mode)


def pair_unit(res: CheckResult, name: str, progs: List[dict], ic: Any) -> None:
    """C13: the same program rendered with `def` and with `async def` must produce the same event log."""
    progs = F.number(progs)
    npairs = 0
    for p in progs:
        q = F.async_twin(p)
        if q is None:
            continue
        a, _ = C.run_impl(p, ic)
        b, _ = C.run_impl(q, ic)
        npairs += 1
        if a != b:
            i = next((i for i, (x, y) in enumerate(zip(a, b)) if x != y), min(len(a), len(b)))
            what = "unit {}: sync and async renderings diverge at event {}: sync {} / async {}".format(
                name, i, a[i] if i < len(a) else None, b[i] if i < len(b) else None)
            res.violation("async.diverges_from_sync", what,
                          {"signature": "async.diverges_from_sync", "program": p, "sync": a, "async": b})
        elif len(res.samples) < 4 and npairs % 499 == 1:
            res.samples.append({"unit": name, "program": p, "events_sync_and_async": a[:40]})
    if npairs == 0:
        raise MachineryError("unit {}: no sync/async pair".format(name))
    res.traces += 2 * npairs
    res.evaluations += npairs
    res.add_unit(name, pairs=npairs)
