"""ICCall pipeline: model-check a family, replay every behaviour on the implementation, validate recorded traces."""
import importlib
import json
import os
import shutil
import sys
import time
from typing import Any, Dict, Iterable, List, Optional, Tuple

from icv import tlc
from icv.render import render, release
from icv.sched import SingleSched, ThreadSched, AsyncSched, RealAsyncSched

SWITCH_NAMES = ["SwReentryDiscards", "SwHoldDuringBody", "SwInitNested", "SwShareSet",
                "SwFutureNotAwaited"]

# the switches that describe the implementation as it is (a recorded, unrepaired finding keeps its switch on)
AS_IS = {name: False for name in SWITCH_NAMES}
ALL_OFF = {name: False for name in SWITCH_NAMES}

CALL_INVARIANTS = ["PreGate", "PreBlock", "PostGate", "PostBlock", "ExcPass", "CaptureWindow", "OldIsCaptured",
                   "MarksMatchFrames", "SkipExactly", "Bounded", "Rearmed", "VerdictIndependent", "NoStuck"]


def load_icontract() -> Any:
    repo = os.environ.get("ICV_REPO", "/repo")
    if repo not in sys.path:
        sys.path.insert(0, repo)
    mod = importlib.import_module("icontract")
    here = os.path.dirname(os.path.abspath(mod.__file__))
    if os.path.realpath(os.path.dirname(here)) != os.path.realpath(repo):
        raise RuntimeError("icontract imported from {} instead of {}".format(here, repo))
    return mod


def cfg_text(spec: str, switches: Dict[str, bool], async_sched: bool, invariants: Iterable[str],
             progspace: str = "MCProgSpace", extra: str = "") -> str:
    lines = ["SPECIFICATION " + spec, "CONSTANTS"]
    lines.append("  ProgSpace <- {}".format(progspace) if progspace else "  ProgSpace = {}")
    for name in SWITCH_NAMES:
        lines.append("  {} = {}".format(name, "TRUE" if switches.get(name) else "FALSE"))
    lines.append("  AsyncSched = {}".format("TRUE" if async_sched else "FALSE"))
    for inv in invariants:
        lines.append("INVARIANT " + inv)
    lines.append("CHECK_DEADLOCK FALSE")
    if extra:
        lines.append(extra)
    return "\n".join(lines) + "\n"


def model_check(progs: List[dict], switches: Dict[str, bool], async_sched: bool = False,
                invariants: Optional[List[str]] = None, emit_logs: bool = True, workers: int = 16,
                view_no_log: bool = False, timeout: int = 3600, simulate: int = 0, seed: int = 0,
                depth: int = 400) -> Tuple[tlc.TlcResult, Dict[int, list]]:
    """Explore every behaviour of every program of the family; return TLC's result and the expected logs.

    simulate = N: random behaviours instead (TLC -simulate), N per program on average.
    """
    CHUNK = 5000
    if not simulate and len(progs) > CHUNK:
        # big families are explored in several TLC runs (every program is an initial state of its own, so the union of
        # the runs is the exploration of the whole family); keeps the heap bounded
        total = tlc.TlcResult()
        total.ok = True
        merged = {}  # type: Dict[int, list]
        for off in range(0, len(progs), CHUNK):
            r, many = model_check(progs[off:off + CHUNK], switches, async_sched, invariants, emit_logs, workers, view_no_log,
                                  timeout, simulate, seed, depth)
            total.states += r.states
            total.distinct += r.distinct
            total.depth = max(total.depth, r.depth)
            total.wall += r.wall
            merged.update(many)
            if not r.ok:
                total.ok, total.violated, total.error, total.raw, total.trace = False, r.violated, r.error, r.raw, r.trace
                break
        return total, merged
    wd = tlc.scratch_dir("icv-mc-")
    try:
        pfile = os.path.join(wd, "progs.ndjson")
        with open(pfile, "w") as fh:
            for p in progs:
                fh.write(json.dumps(p) + "\n")
        invs = list(CALL_INVARIANTS if invariants is None else invariants)
        if emit_logs:
            invs.append("PrintDone")
        extra = "CONSTRAINT DepthOK"
        if view_no_log:
            extra += "\nVIEW NoLogView"
        cfg = cfg_text("Spec", switches, async_sched, invs, extra=extra)
        sim = None
        if simulate:
            sim = "num={}".format(simulate * len(progs))
        res = tlc.run_tlc("MC_Gen", cfg, wd, workers=workers if not simulate else 4, env={"PROGS": pfile},
                          timeout=timeout, simulate=sim, seed=seed if simulate else None,
                          extra_args=["-depth", str(depth)] if simulate else None)
        many = {}  # type: Dict[int, List[list]]
        for pr in res.prints:
            if isinstance(pr, dict) and "pid" in pr and "log" in pr:
                many.setdefault(pr["pid"], []).append(pr["log"])
        return res, many  # type: ignore
    finally:
        shutil.rmtree(wd, ignore_errors=True)


def compact(ev: dict) -> list:
    ip = ev["ip"]
    return [ev["e"], ev["t"], ev["id"], ev["o"], ev["a"], ev["v"], ev["cls"], list(ev["old"]), ev["res"],
            [-1] if ip == "n/a" else sorted(ip)]


def same_log(exp: List[list], act: List[list]) -> bool:
    """Equality of an expected and a recorded log; a recorded view [-1] (not available) matches anything."""
    if len(exp) != len(act):
        return False
    for a, b in zip(exp, act):
        if a[:9] != b[:9]:
            return False
        if b[9] != [-1] and a[9] != b[9]:
            return False
    return True


def norm_expected(ev: list) -> list:
    ev = list(ev)
    ev[7] = list(ev[7])
    ev[9] = sorted(ev[9])
    return ev


def run_impl(prog: dict, ic: Any, schedule: Optional[List[int]] = None, mode: str = "single",
             rng: Any = None) -> Tuple[List[list], Any]:
    """Render and run a program on the implementation; return the compact event log and the runtime."""
    rt = render(prog, ic)
    try:
        if rt.define_error is not None:
            return [["deferr", 0, 0, 0, 0, 0, type(rt.define_error).__name__, [], 0, [-1]]], rt
        if mode == "single":
            SingleSched(rt).run()
        else:
            pos = [0]

            def choose(ready: List[int], step: int) -> int:
                if schedule is not None:
                    # the schedule lists, event by event, the task that emits it
                    while pos[0] < len(schedule):
                        t = schedule[pos[0]]
                        pos[0] += 1
                        return t
                    return ready[0]
                return rng.choice(ready)

            if mode == "thread":
                ThreadSched(rt, choose).run()
            elif mode == "thread-preempt":
                from icv.sched import PreemptSched
                ps = PreemptSched(rt, choose, rng)
                ps.run()
                rt.preemptions = ps.preemptions
            elif mode == "async-emulated":
                AsyncSched(rt, choose).run()
            else:
                RealAsyncSched(rt, choose).run()
        rt.finalize_log()
        return [compact(ev) for ev in rt.log], rt
    finally:
        release(rt)


def validate_traces(items: List[dict], switches: Dict[str, bool], async_sched: bool = False,
                    timeout: int = 3600) -> Tuple[tlc.TlcResult, List[dict]]:
    """items: [{"pid":…, "prog":…, "log":[compact events]}] -> verdict records (one per item, in order)."""
    if not items:
        r = tlc.TlcResult()
        r.ok = True
        return r, []
    wd = tlc.scratch_dir("icv-tr-")
    try:
        tfile = os.path.join(wd, "traces.ndjson")
        with open(tfile, "w") as fh:
            for it in items:
                fh.write(json.dumps({"pid": it["pid"], "prog": it["prog"], "log": it["log"]}) + "\n")
        cfg = cfg_text("TraceSpec", switches, async_sched, [], progspace="",
                       extra="CONSTRAINT LastReported")
        res = tlc.run_tlc("ICCallTrace", cfg, wd, workers=1, env={"TRACE_FILE": tfile}, timeout=timeout,
                          depth_first=True)
        verdicts = [None] * len(items)  # type: List[Any]
        for pr in res.prints:
            if isinstance(pr, dict) and "tid" in pr:
                verdicts[pr["tid"] - 1] = pr
        return res, verdicts
    finally:
        shutil.rmtree(wd, ignore_errors=True)
