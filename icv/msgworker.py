"""Worker for the C20 check: runs message cases in this interpreter (its PYTHONHASHSEED is set by the parent)."""
import json
import os
import reprlib
import sys
import types

HERE = os.path.dirname(os.path.dirname(os.path.abspath(__file__)))
sys.path.insert(0, HERE)


class SomeClass:
    def method(self) -> None:
        pass


class LazyModule(types.ModuleType):
    """A module object whose type is a subclass of the module type (lazy importers, apipkg and the like)."""


def some_function() -> None:
    pass


def make_value(kind: str, size: int):  # type: ignore
    if kind == "int":
        return size
    if kind == "str":
        return "".join(chr(ord("a") + (i * 7) % 26) for i in range(size))
    if kind == "list":
        return list(range(size))
    if kind == "strset":
        return {"item-{}-{}".format(i, "x" * (i % 3)) for i in range(size)}
    if kind == "cls":
        return SomeClass
    if kind == "func":
        return some_function
    if kind == "method":
        return SomeClass().method
    if kind == "mod":
        return types
    if kind == "modsub":
        return LazyModule("lazily_imported_settings")   # an instance of a subclass of types.ModuleType
    if kind == "builtin":
        return len
    if kind == "mwrapper":
        return [1, 2, 3].__len__      # a method of a built-in type bound to an instance (what `x.__len__` evaluates to)
    raise ValueError(kind)


def main() -> None:
    from icv import callcheck
    ic = callcheck.load_icontract()
    cases = [json.loads(l) for l in open(sys.argv[1])]
    out = []
    for c in cases:
        a_repr = reprlib.Repr()
        a_repr.maxstring = c["maxstring"]
        a_repr.maxlist = a_repr.maxset = a_repr.maxtuple = a_repr.maxdict = a_repr.maxother = c["maxlist"]
        a_repr.maxother = max(c["maxstring"], 40)
        names = [a["name"] for a in c["args"]]
        cond_params = [names[0]] + (["_ARGS"] if c["named_args"] else []) + (["_KWARGS"] if c["named_kwargs"] else [])
        ns = {"icontract": ic, "A_REPR": a_repr, "is_bad": (lambda v: False)}
        if c["flavour"] == "named":
            src = "def cond({}):\n    return False\n".format(", ".join(cond_params))
            cond = "cond"
        elif c["flavour"] == "lambda":
            src = ""
            cond = "lambda {}: is_bad({})".format(", ".join(cond_params), names[0])
        elif c["flavour"] == "quant2":
            src = ""
            cond = "lambda a, b: all(p + q + r < 0 for _, p in a for _, q in b for r, _ in a)"
        else:  # quantifier over the first argument
            src = ""
            cond = "lambda {}: all(is_bad(e) for e in {})".format(", ".join(cond_params), names[0])
        kw = "" if c["default_repr"] else ", a_repr=A_REPR"
        role = c.get("role", "pre")
        if role == "inv":
            if c["flavour"] == "named":
                src = "def cond(self):\n    return False\n"
            else:
                cond = "lambda self: is_bad(self.{})".format(names[0])
            src += ("@icontract.invariant({}{})\nclass K:\n    def __init__(self, {}):\n        self.{} = {}\n"
                    "    def __repr__(self):\n        return 'K(' + 'r' * 70 + ')'\n"
                    "def f({}):\n    return K({})\n").format(cond, kw, names[0], names[0], names[0], names[0], names[0])
        else:
            ns["RESULT"] = make_value(c["result"]["kind"], c["result"]["size"]) if c.get("result") else 1
            src += "@icontract.{}({}{})\ndef f({}):\n    return RESULT\n".format(
                "require" if role == "pre" else "ensure", cond, kw, ", ".join(names))
        fname = "<icv-msg-{}>".format(c["mid"])
        import linecache
        linecache.cache[fname] = (len(src), None, src.splitlines(True), fname)
        exec(compile(src, fname, "exec"), ns)
        values = {a["name"]: make_value(a["kind"], a["size"]) for a in c["args"]}
        if c["flavour"] == "quant2":
            values = {"a": [(7, 1)], "b": [(8, 3)]}
        if c["flavour"] == "quant":
            # the quantifier ranges over a LIST (deterministic order) whose single element is the interesting value
            values[names[0]] = [values[names[0]]]
        kwargs = {names[i - 1]: values[names[i - 1]] for i in c["order"]}
        msgs = []
        for _ in range(2):
            try:
                ns["f"](**kwargs)
                msgs.append(None)
            except ic.ViolationError as exc:
                msgs.append(str(exc))
            except Exception as exc:  # noqa
                msgs.append("EXC " + repr(exc))
        the_repr = ic.aRepr if c["default_repr"] else a_repr
        rendered = {n: the_repr.repr(v) for n, v in values.items()}
        if role == "inv":
            rendered["self"] = the_repr.repr(ns["K"].__new__(ns["K"]))
        first = None
        if c["flavour"] == "quant":
            try:
                first = the_repr.repr(next(iter(values[names[0]])))
            except Exception:  # noqa
                first = None
        out.append({"mid": c["mid"], "msgs": msgs, "rendered": rendered, "first": first})
        linecache.cache.pop(fname, None)
    json.dump(out, sys.stdout)


if __name__ == "__main__":
    main()
