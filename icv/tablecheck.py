"""Decision tables (spec/ICTables.tla): misuse (C19), configuration (C15), constructor shapes (C14)."""
import functools
import inspect
import json
import os
import shutil
import subprocess
import sys
from typing import Any, Dict, List, Tuple

from icv import tlc
from icv.result import CheckResult, MachineryError


def table_cells(table: str, sw_new: bool = False, emit: bool = True) -> Tuple[tlc.TlcResult, List[dict]]:
    wd = tlc.scratch_dir("icv-tab-")
    try:
        cfg = ('SPECIFICATION TSpec\nCONSTANTS\n  Table = "{}"\n  SwNewWrapAlways = {}\nINVARIANT NeverSilent\n'
               'INVARIANT ModeIndependent\nINVARIANT Instantiable\n{}CHECK_DEADLOCK FALSE\n').format(
            table, "TRUE" if sw_new else "FALSE", "INVARIANT PrintExpected\n" if emit else "")
        res = tlc.run_tlc("MC_Tables", cfg, wd, workers=4)
        return res, [p for p in res.prints if isinstance(p, dict) and "cell" in p]
    finally:
        shutil.rmtree(wd, ignore_errors=True)


# ------------------------------------------------------------------------------------------------------ C19
def _target(ic: Any, c: str, params: str, with_kwargs: bool = False) -> Tuple[str, str]:
    """Source of a callable of kind c with the given extra parameter list; returns (source template, how to call)."""
    p = params
    if c == "function":
        return "{D}\ndef t(" + p + "):\n    return 1\n", "t({A})"
    if c == "async_function":
        return "{D}\nasync def t(" + p + "):\n    return 1\n", "run(t({A}))"
    sp = "self" + (", " + p if p else "")
    if c == "method":
        return "class K:\n    {D}\n    def t(" + sp + "):\n        return 1\n", "K().t({A})"
    if c == "async_method":
        return "class K:\n    {D}\n    async def t(" + sp + "):\n        return 1\n", "run(K().t({A}))"
    if c == "static":
        return "class K:\n    @staticmethod\n    {D}\n    def t(" + p + "):\n        return 1\n", "K.t({A})"
    if c == "classm":
        cp = "cls" + (", " + p if p else "")
        return "class K:\n    @classmethod\n    {D}\n    def t(" + cp + "):\n        return 1\n", "K.t({A})"
    if c == "getter":
        return "class K:\n    @property\n    {D}\n    def t(self):\n        return 1\n", "K().t"
    raise ValueError(c)


ERROR_EXPRS = {"error_int": "3", "error_str": "'oops'", "error_nonexc_class": "int",
               "error_callable_object": "functools.partial(ValueError, 'x')", "error_empty_str": "''", "error_zero": "0",
               "error_empty_list": "[]", "error_false": "False"}


def observe_misuse(ic: Any, cell: dict) -> Tuple[str, str]:
    """Run the misuse of the cell; return (moment, exception class) or ("never", "")."""
    m, d, c = cell["m"], cell["d"], cell["c"]
    ns = {"icontract": ic, "functools": functools}  # type: Dict[str, Any]

    def run(coro: Any) -> Any:
        try:
            coro.send(None)
        except StopIteration as stop:
            return stop.value
        raise RuntimeError("suspended")

    ns["run"] = run
    moment = ["create"]

    class Marker:
        pass

    def create(expr: str) -> Any:
        """Evaluate the decorator expression (moment = create)."""
        return eval(expr, ns)

    try:
        if d in ("require", "ensure"):
            cond = "lambda: True" if d == "require" else "lambda result: True"
            params, call_args = "x=1", ""
            deco_expr = "icontract.{}({})".format(d, cond)
            if m == "param_ARGS":
                params = "_ARGS=1"
            elif m == "param_KWARGS":
                params = "_KWARGS=1"
            elif m in ("param_ARGS_kwonly", "param_KWARGS_kwonly"):
                params = "x=1, *, {}=2".format("_ARGS" if m == "param_ARGS_kwonly" else "_KWARGS")
            elif m == "param_ARGS_variadic":
                params = "x=1, *_ARGS"
            elif m == "param_KWARGS_variadic":
                params = "x=1, **_KWARGS"
            elif m == "kw_ARGS":
                params, call_args = "**kwargs", "_ARGS=1"
            elif m == "kw_KWARGS":
                params, call_args = "**kwargs", "_KWARGS=1"
            elif m in ("kw_ARGS_reentrant", "kw_KWARGS_reentrant"):
                # the condition itself calls the function again, passing the reserved keyword
                kwname = "_ARGS" if m == "kw_ARGS_reentrant" else "_KWARGS"
                params = "**kwargs"
                ns["REENTER"] = lambda: (ns["CALLIT"](), True)[1]
                cond = "lambda: REENTER()" if d == "require" else "lambda result: REENTER()"
                deco_expr = "icontract.{}({})".format(d, cond)
            elif m in ("param_ARGS_inherited", "param_KWARGS_inherited"):
                # Base.t carries the contract; Derived overrides t WITHOUT a decorator and declares the reserved name
                reserved = "_ARGS" if m == "param_ARGS_inherited" else "_KWARGS"
                deco = create(deco_expr)
                moment[0] = "decorate"
                ns["DECO"] = deco
                head = {"method": "", "async_method": "", "static": "@staticmethod\n    ", "classm": "@classmethod\n    "}[c]
                first = {"method": "self, ", "async_method": "self, ", "static": "", "classm": "cls, "}[c]
                adef = "async def" if c == "async_method" else "def"
                src = ("class Base(icontract.DBC):\n    {H}@DECO\n    {A} t({F}x=1):\n        return 1\n"
                       "class Derived(Base):\n    {H}{A} t({F}x=1, {R}=2):\n        return 1\n").format(
                    H=head, A=adef, F=first, R=reserved)
                exec(src, ns)
                moment[0] = "call"
                return ("never", "")
            elif m == "param_result":
                params = "result=1"
            elif m == "param_OLD":
                params = "OLD=1"
            elif m in ("param_result_pre_violated", "param_OLD_pre_violated"):
                params = "{}=1".format(m.split("_")[1])
                def _never() -> bool:
                    return False
                ns["PRE_VIOLATED"] = ic.require(_never)     # (a named condition: no source text has to be recovered)
            elif m in ("kw_ARGS_pre_violated", "kw_KWARGS_pre_violated"):
                # the function has NO **kwargs and a precondition the call violates: the reserved keyword is reported all
                # the same (no condition may be evaluated with a shadowed placeholder first)
                params, call_args = "x=1", "{}=1".format("_ARGS" if m == "kw_ARGS_pre_violated" else "_KWARGS")
                def _never2() -> bool:
                    return False
                ns["PRE_VIOLATED"] = ic.require(_never2)
            elif m in ("param_result_kwonly", "param_OLD_kwonly"):
                params = "x=1, *, {}=1".format(m.split("_")[1])
            elif m in ("param_result_posonly", "param_OLD_posonly"):
                params = "{}=1, /, x=1".format(m.split("_")[1])
            elif m in ("kw_result", "kw_OLD"):
                params, call_args = "x=1, **kwargs", "{}=1".format(m.split("_")[1])
            elif m.startswith("error_"):
                err = ERROR_EXPRS[m]
                deco_expr = "icontract.{}({}, error={})".format(d, cond, err)
            deco = create(deco_expr)
            moment[0] = "decorate"
            ns["DECO"] = deco
            src, call = _target(ic, c, params)
            stack_src = "@PRE_VIOLATED\n    @DECO" if "PRE_VIOLATED" in ns else "@DECO"
            if c in ("function", "async_function"):
                stack_src = stack_src.replace("\n    ", "\n")
            exec(src.replace("{D}", stack_src), ns)
            moment[0] = "call"
            if m in ("kw_ARGS_reentrant", "kw_KWARGS_reentrant"):
                state = {"depth": 0}

                def callit() -> None:
                    if state["depth"] == 0:
                        state["depth"] = 1
                        eval(call.replace("{A}", kwname + "=1"), ns)

                ns["CALLIT"] = callit
            eval(call.replace("{A}", call_args), ns)
            return ("never", "")
        if d == "invariant":
            inv_forms = {"inv_extra_param": "lambda self, other: True", "inv_varargs": "lambda self, *args: True",
                         "inv_varkw": "lambda self, **kwargs: True", "inv_only_varargs": "lambda *args: True",
                         "inv_kwonly_param": "lambda self, *, k: True", "inv_defaulted_param": "lambda self, other=1: True"}
            if m in inv_forms:
                expr = "icontract.invariant({})".format(inv_forms[m])
            elif m == "inv_coroutine":
                ns["acond"] = _make_async_cond()
                expr = "icontract.invariant(acond)"
            elif m == "inv_coroutine_error_class":
                ns["acond"] = _make_async_cond()
                expr = "icontract.invariant(acond, error=ValueError)"
            elif m == "inv_coroutine_error_factory":
                ns["acond"] = _make_async_cond()
                expr = "icontract.invariant(acond, error=lambda self: ValueError('x'))"
            else:
                err = ERROR_EXPRS[m]
                expr = "icontract.invariant(lambda self: True, error={})".format(err)
            deco = create(expr)
            moment[0] = "decorate"
            ns["DECO"] = deco
            exec("@DECO\nclass K:\n    def m(self):\n        return 1\n", ns)
            moment[0] = "call"
            eval("K().m()", ns)
            return ("never", "")
        if d == "snapshot":
            if m == "capture_noname_0":
                deco_expr = "icontract.snapshot(lambda: 1)"
            elif m == "capture_noname_2":
                deco_expr = "icontract.snapshot(lambda x, y: 1)"
            elif m == "capture_noname_default":
                deco_expr = "icontract.snapshot(lambda x, y=2: 1)"
            elif m == "capture_noname_kwdefault":
                deco_expr = "icontract.snapshot(lambda x, *, y=2: 1)"
            else:
                deco_expr = "icontract.snapshot(lambda x: x, name='s')"
            deco = create(deco_expr)
            moment[0] = "decorate"
            ns["DECO"] = deco
            if m == "snapshot_no_post":
                stack = "@DECO\n    @icontract.require(lambda: True)"
            elif m == "snapshot_dup":
                ns["DECO2"] = create("icontract.snapshot(lambda x: x, name='s')")
                stack = "@DECO\n    @DECO2\n    @icontract.ensure(lambda result: True)"
            else:
                stack = "@DECO\n    @icontract.ensure(lambda result: True)"
            params = "" if c == "getter" else "x=1, y=2"
            if c == "getter":
                # a capture of a getter can only take self
                ns["DECO"] = deco
            src, call = _target(ic, c, params)
            if c in ("function", "async_function"):
                stack = stack.replace("\n    ", "\n")
            exec(src.replace("{D}", stack), ns)
            moment[0] = "call"
            eval(call.replace("{A}", ""), ns)
            return ("never", "")
    except (TypeError, ValueError) as exc:
        return (moment[0], type(exc).__name__)
    except Exception as exc:  # noqa
        return (moment[0], type(exc).__name__)
    return ("never", "")


def _make_async_cond() -> Any:
    async def acond(self: Any) -> bool:
        return True
    return acond


def check_misuse(res: CheckResult, ic: Any, only: Any = None) -> None:
    r, cells = table_cells("misuse")
    if not r.ok:
        raise MachineryError("ICTables/misuse: {}".format(r.violated or r.error))
    res.states += r.distinct
    res.transitions += r.states
    n = 0
    for ex in cells:
        cell = ex["cell"]
        if cell["d"] == "snapshot" and cell["c"] == "getter":
            continue  # a capture of a property getter has no argument to name: not constructible
        if only is not None and not only(cell):
            continue
        got = observe_misuse(ic, cell)
        n += 1
        want = (ex["moment"], ex["exc"])
        if got != want:
            clause = "def.misuse_accepted" if got[0] == "never" else (
                "def.misuse_wrong_moment" if got[0] != want[0] else "def.misuse_wrong_class")
            res.violation(clause, "misuse {} with {} on {}: expected {} at {}, observed {} at {}".format(
                cell["m"], cell["d"], cell["c"], want[1] or "no error", want[0], got[1] or "no error", got[0]),
                {"signature": clause, "cell": cell, "expected": want, "observed": got})
    res.traces += n
    res.evaluations += n
    res.coverage_extra["exhaustive"] = True
    res.samples.append({"cell": cells[5]["cell"], "expected": [cells[5]["moment"], cells[5]["exc"]]})
    res.add_unit("misuse kinds x decorators x callable kinds", cells=n)


# ------------------------------------------------------------------------------------------------------ C14 ctor
def _ctor_classes(ic: Any, cell: dict, contracted: bool) -> Any:
    def body(shape: str) -> Dict[str, Any]:
        if shape == "init0":
            def __init__(self: Any) -> None:
                pass
            return {"__init__": __init__}
        if shape == "init1":
            def __init__(self: Any, x: Any) -> None:  # type: ignore
                pass
            return {"__init__": __init__}
        if shape == "new1":
            def __new__(cls: Any, x: Any) -> Any:
                return object.__new__(cls)
            return {"__new__": __new__}
        return {}
    base = (ic.DBC,) if contracted else (object,)
    Root = type(base[0])("Root", base, body(cell["root"])) if contracted else type("Root", base, body(cell["root"]))
    if contracted:
        Root = ic.invariant(lambda self: True)(Root)
    target = Root
    if cell["sub"] != "nosub":
        Sub = type(Root)("Sub", (Root,), body(cell["sub"]))
        if contracted and cell["subinv"]:
            Sub = ic.invariant(lambda self: True)(Sub)
        if cell["inst"] == "sub":
            target = Sub
    return target


def check_ctor(res: CheckResult, ic: Any) -> None:
    r, cells = table_cells("ctor")
    if not r.ok:
        raise MachineryError("ICTables/ctor: {}".format(r.violated or r.error))
    res.states += r.distinct
    res.transitions += r.states
    n = 0
    for ex in cells:
        cell = ex["cell"]
        args = (5,) * cell["nargs"]
        kwargs = {}  # type: Dict[str, Any]
        if cell["style"] == "kw":
            args, kwargs = (), {"x": 5}
        outcomes = []
        for contracted in (False, True):
            cls = _ctor_classes(ic, cell, contracted)
            try:
                cls(*args, **kwargs)
                outcomes.append(True)
            except TypeError:
                outcomes.append(False)
        n += 1
        if outcomes[0] != ex["ok"]:
            raise MachineryError("ICTables BareAccepts disagrees with CPython on {}: spec {} CPython {}".format(
                cell, ex["ok"], outcomes[0]))
        if outcomes[1] != outcomes[0]:
            res.violation("def.not_instantiable",
                          "constructor shapes {}: the bare class {} {} argument(s), the class with invariants {}".format(
                              cell, "accepts" if outcomes[0] else "rejects", cell["nargs"],
                              "accepts" if outcomes[1] else "rejects"),
                          {"signature": "def.not_instantiable", "cell": cell})
    res.traces += n
    res.evaluations += n
    res.add_unit("constructor shapes of a class with invariants and its subclass x arguments", cells=n)


# ------------------------------------------------------------------------------------------------------ C14 metadata
def _meta_pair(ic: Any, how: str, kind: str) -> Tuple[Any, Any, Any, Any]:
    """(bare callable, contracted callable, bare class or None, contracted class or None) for a cell."""
    import abc
    import functools
    isasync = kind in ("async_function", "async_method", "abstract_async_method")
    isabstract = kind in ("abstract_method", "abstract_async_method")
    inclass = kind not in ("function", "async_function")

    def make_fn() -> Any:
        if isasync:
            async def target(self_or_x: int = 1, y: "str" = "a") -> int:
                """the doc"""
                return 1
        else:
            def target(self_or_x: int = 1, y: "str" = "a") -> int:  # type: ignore
                """the doc"""
                return 1
        return target

    def to_async(f: Any) -> Any:
        @functools.wraps(f)
        async def wrapper(*a: Any, **k: Any) -> Any:
            return f(*a, **k)
        return wrapper

    def to_sync(f: Any) -> Any:
        @functools.wraps(f)
        def wrapper(*a: Any, **k: Any) -> Any:
            return f(*a, **k)
        return wrapper

    def contract(f: Any) -> Any:
        if how == "require":
            return ic.require(lambda: True)(f)
        if how == "ensure":
            return ic.ensure(lambda result: True)(f)
        if how == "snapshot_ensure":
            return ic.snapshot(lambda y: y, name="s")(ic.ensure(lambda result: True)(f))
        if how == "require_ensure":
            return ic.require(lambda: True)(ic.ensure(lambda result: True)(f))
        return f

    def wrap_kind(f: Any) -> Any:
        if isabstract:
            f = abc.abstractmethod(f)
        if kind == "static":
            return staticmethod(f)
        if kind == "classm":
            return classmethod(f)
        if kind == "getter":
            return property(f)
        return f

    def unwrap_kind(raw: Any) -> Any:
        if isinstance(raw, (staticmethod, classmethod)):
            return raw.__func__
        if isinstance(raw, property):
            return raw.fget
        return raw

    if how == "foreign_makes_async":
        base = to_async(make_fn())
    elif how == "foreign_makes_sync":
        async def inner(self_or_x: int = 1, y: "str" = "a") -> int:
            """the doc"""
            return 1
        base = to_sync(inner)
    else:
        base = make_fn()
    if not inclass:
        deco = ic.require(lambda: True) if how.startswith("foreign") else None
        return base, (deco(base) if deco else contract(base)), None, None
    # in a class: the bare class holds the undecorated member, the contracted class the contracted one
    bases = (abc.ABC,) if isabstract else (object,)
    if how == "dbc_invariant":
        cbases = (ic.DBC,)
    else:
        cbases = bases
    member_bare = wrap_kind(base)
    if how in ("invariant", "dbc_invariant"):
        member_con = wrap_kind(base)
    elif how.startswith("foreign"):
        member_con = wrap_kind(ic.require(lambda: True)(base))
    else:
        member_con = wrap_kind(contract(base))
    Bare = type(bases[0])("K", bases, {"t": member_bare, "__module__": "icv_meta"})
    Con = type(cbases[0])("K", cbases, {"t": member_con, "__module__": "icv_meta"})
    if how in ("invariant", "dbc_invariant"):
        Con = ic.invariant(lambda self: True)(Con)
    return (unwrap_kind(inspect.getattr_static(Bare, "t")), unwrap_kind(inspect.getattr_static(Con, "t")), Bare, Con)


def _meta_attr(attr: str, fn: Any, cls: Any, original: Any) -> Any:
    if attr == "name":
        return getattr(fn, "__name__", None)
    if attr == "qualname":
        return getattr(fn, "__qualname__", None)
    if attr == "doc":
        return getattr(fn, "__doc__", None)
    if attr == "module":
        return getattr(fn, "__module__", None)
    if attr == "annotations":
        return dict(getattr(fn, "__annotations__", {}))
    if attr == "signature":
        return str(inspect.signature(fn))
    if attr == "abstract":
        return bool(getattr(fn, "__isabstractmethod__", False))
    if attr == "class_abstract":
        sub = type(cls)("Sub", (cls,), {})
        try:
            sub()
            inst = True
        except TypeError:
            inst = False
        return (inspect.isabstract(cls), sorted(getattr(cls, "__abstractmethods__", ())), inst)
    if attr == "coroutine":
        return inspect.iscoroutinefunction(fn)
    if attr == "wrapped":
        cur, seen = fn, 0
        while cur is not None and seen < 30:
            if cur is original:
                return True
            cur, seen = getattr(cur, "__wrapped__", None), seen + 1
        return False
    raise ValueError(attr)


def check_meta(res: CheckResult, ic: Any) -> None:
    """C14: name, qualname, doc, module, annotations, signature, abstractness, coroutine-ness, __wrapped__."""
    r, cells = table_cells("meta")
    if not r.ok:
        raise MachineryError("ICTables/meta: {}".format(r.violated or r.error))
    res.states += r.distinct
    res.transitions += r.states
    n = 0
    for ex in cells:
        cell = ex["cell"]
        try:
            bare, con, bare_cls, con_cls = _meta_pair(ic, cell["how"], cell["kind"])
            want = _meta_attr(cell["attr"], bare, bare_cls, bare)
            got = _meta_attr(cell["attr"], con, con_cls, bare)
        except Exception as exc:  # noqa
            res.violation("def.metadata_lost", "metadata cell {}: {!r}".format(cell, exc),
                          {"signature": "def.metadata_lost", "cell": cell})
            continue
        n += 1
        if want != got:
            res.violation("def.metadata_lost",
                          "{} of a {} contracted by {}: the decorated object shows {!r}, the contracted one {!r}".format(
                              cell["attr"], cell["kind"], cell["how"], want, got),
                          {"signature": "def.metadata_lost", "cell": cell, "bare": repr(want), "contracted": repr(got)})
    res.traces += n
    res.evaluations += n
    res.add_unit("metadata: attribute x callable kind x way of contracting", cells=n)


def _call_shape(ic: Any, shape: str, how: str, contracted: bool) -> Any:
    """Build the (bare / contracted) classes of a call-shape cell, perform the call, return what was observed."""
    log = []  # type: List[Any]

    def contract_class(cls: Any) -> Any:
        if contracted and how in ("invariant", "dbc_invariant"):
            return ic.invariant(lambda self: True)(cls)
        return cls

    def contract_method(f: Any) -> Any:
        if contracted and how == "dbc_require":
            return ic.require(lambda: True)(f)
        return f

    root = (ic.DBC,) if (contracted and how in ("dbc_invariant", "dbc_require")) else (object,)

    def mk(name: str, bases: Tuple[Any, ...], nsp: Dict[str, Any], **kw: Any) -> Any:
        return type(bases[0])(name, bases, dict(nsp, __module__="icv_calls"), **kw)

    marker = object()
    if shape == "self_by_keyword":
        def m(self: Any, x: int = 1) -> Any:
            log.append(("m", type(self).__name__, x))
            return x + 1
        K = contract_class(mk("K", root, {"m": contract_method(m)}))
        inst = K()
        return ("ret", K.m(self=inst, x=5), log)
    if shape == "posonly_self_kw_named_self":
        def update(self: Any, /, **fields: Any) -> Any:
            log.append(("update", type(self).__name__, sorted(fields), fields.get("self") is marker))
            return len(fields)
        K = contract_class(mk("K", root, {"update": contract_method(update)}))
        return ("ret", K().update(self=marker, a=1), log)
    if shape == "init_posonly_self_kw":
        def __init__(self: Any, /, **fields: Any) -> None:
            log.append(("init", type(self).__name__, sorted(fields), fields.get("self") is marker))
        K = contract_class(mk("K", root, {"__init__": contract_method(__init__)}))
        K(self=marker, a=1)
        return ("ret", None, log)
    if shape in ("class_keywords", "class_keywords_grandchild"):
        def __init_subclass__(cls: Any, tag: str = "none", **kw: Any) -> None:
            super(Base, cls).__init_subclass__(**kw)
            cls.tag = tag
            log.append(("subclass", cls.__name__, tag))

        def m(self: Any) -> Any:
            return type(self).tag
        Base = contract_class(mk("Base", root, {"__init_subclass__": classmethod(__init_subclass__), "m": contract_method(m),
                                               "tag": "base"}))
        T = mk("T", (Base,), {}, tag="tagged")
        if shape == "class_keywords_grandchild":
            T = mk("G", (T,), {}, tag="grand")
        return ("ret", T().m(), log)
    if shape in ("builtin_list_base", "builtin_dict_base"):
        base = list if shape == "builtin_list_base" else dict
        seen = []  # type: List[int]

        def inv(self: Any) -> bool:
            seen.append(len(self))
            return len(self) > 0
        cls = type("Batch", (base,), {"__module__": "icv_calls", "size": lambda self: len(self)})
        if contracted:
            cls = ic.invariant(inv)(cls)
        arg = [3, 1, 2] if base is list else {"a": 1, "b": 2, "c": 3}
        inst = cls(arg)
        out = inst.size()
        # with invariants: evaluated only on the fully built object (never on the still empty one)
        return ("ret", out, [("built", len(inst))] + ([("never-on-unbuilt", all(n == 3 for n in seen))] if contracted else
                                                      [("never-on-unbuilt", True)]))
    raise ValueError(shape)


def check_calls(res: CheckResult, ic: Any, only: Any = None) -> None:
    """C14: unusual call / class-statement shapes on a class with contracts behave as on the bare class."""
    r, cells = table_cells("calls")
    if not r.ok:
        raise MachineryError("ICTables/calls: {}".format(r.violated or r.error))
    res.states += r.distinct
    res.transitions += r.states
    n = 0
    for ex in cells:
        cell = ex["cell"]
        if only is not None and not only(cell):
            continue
        obs = []
        for contracted in (False, True):
            try:
                obs.append(_call_shape(ic, cell["shape"], cell["how"], contracted))
            except Exception as exc:  # noqa
                obs.append(("exc", type(exc).__name__, str(exc)[:120]))
        n += 1
        if obs[0][0] == "exc":
            raise MachineryError("call-shape cell {} fails on the bare class: {}".format(cell, obs[0]))
        if obs[0] != obs[1]:
            res.violation("def.call_shape_differs",
                          "call shape {} on a class contracted by {}: bare {!r}, contracted {!r}".format(
                              cell["shape"], cell["how"], obs[0], obs[1]),
                          {"signature": "def.call_shape_differs", "cell": cell, "bare": repr(obs[0]), "contracted": repr(obs[1])})
    res.traces += n
    res.evaluations += n
    res.add_unit("call and class-statement shapes x way of contracting", cells=n)


# ------------------------------------------------------------------------------------------------------ C15
CONFIG_WORKER = r'''
import json, sys, os
sys.path.insert(0, os.environ["ICV_REPO_PATH"])
import icontract
cells = json.load(open(sys.argv[1]))
out = []
def run(coro):
    try:
        coro.send(None)
    except StopIteration as stop:
        return stop.value
for cell in cells:
    calls = []
    def cond(*a, **k):
        calls.append("cond"); return False
    def cond_self(self):
        return cond()
    def cond_x(x):
        return cond()
    def cond_result(result):
        return cond()
    def post_ok(result):
        calls.append("post"); return result == 1
    def capture_x(x):
        calls.append("cond"); return x
    arg = {"default": None, "true": True, "false": False, "slow": icontract.SLOW}[cell["arg"]]
    kw = {} if arg is None else {"enabled": arg}
    d, c = cell["d"], cell["c"]
    try:
        if d == "invariant":
            if c == "subclass":
                @icontract.invariant(lambda self: True, enabled=True)
                class Base:
                    def b(self): return 1
                class K(Base):
                    def m(self): return 1
            else:
                class K:
                    def m(self): return 1
            before = dict(vars(K))
            deco = icontract.invariant(cond_self, **kw)
            K2 = deco(K)
            same = K2 is K
            attrs = sorted(set(vars(K2)) - set(before)) + sorted(k for k in before if before[k] is not vars(K2).get(k))
            try:
                K2().m(); outcome = "ret"
            except icontract.ViolationError:
                outcome = "violation"
            # the same call with the instance passed by keyword must be judged alike (in every interpreter mode)
            inst = object.__new__(K2)
            ncond = calls.count("cond")
            try:
                K2.m(self=inst); outcome_kw = "ret"
            except icontract.ViolationError:
                outcome_kw = "violation"
            del calls[ncond:]
            if outcome_kw != outcome:
                raise RuntimeError("m() gives {} but m(self=instance) gives {}".format(outcome, outcome_kw))
        else:
            if c == "function":
                def t(x=1): return 1
                call = lambda f: f()
            elif c == "async_function":
                async def t(x=1): return 1
                call = lambda f: run(f())
            elif c == "callable_object":
                class _Callable:
                    def __call__(self, x=1): return 1
                t = _Callable()
                call = lambda f: f()
            elif c == "partial":
                import functools
                t = functools.partial(lambda x=1: 1)
                call = lambda f: f()
            elif c == "staticmethod_obj":
                def _plain(x=1): return 1
                t = staticmethod(_plain)
                t.route = "/static"          # what a foreign decorator attached to the descriptor
                call = lambda f: f.__func__()
            elif c == "classmethod_obj":
                def _plain(cls, x=1): return 1
                t = classmethod(_plain)
                t.route = "/class"
                call = lambda f: f.__func__(object)
            else:
                def t(self, x=1): return 1
                call = lambda f: f(object())
            orig = t
            before = dict(vars(t))
            if d == "require":
                deco = icontract.require(cond_x, **kw)
            elif d == "ensure":
                deco = icontract.ensure(cond_result, **kw)
            else:
                # a snapshot needs a postcondition below it; that one is always enabled and always holds
                t = icontract.ensure(post_ok, enabled=True)(t)
                orig = t
                before = dict(vars(t))
                deco = icontract.snapshot(capture_x, **kw)
            t2 = deco(orig)
            same = t2 is orig
            attrs = sorted(set(vars(t2)) - set(before)) if same else []
            try:
                call(t2); outcome = "ret"
            except icontract.ViolationError:
                outcome = "violation"
        out.append({"same": same, "attrs": attrs, "cond_calls": calls.count("cond"), "outcome": outcome, "exc": ""})
    except Exception as exc:
        out.append({"same": False, "attrs": [], "cond_calls": -1, "outcome": "exc", "exc": repr(exc)})
json.dump(out, sys.stdout)
'''


def check_config(res: CheckResult, repo: str) -> None:
    r, cells = table_cells("config")
    if not r.ok:
        raise MachineryError("ICTables/config: {}".format(r.violated or r.error))
    res.states += r.distinct
    res.transitions += r.states
    groups = {}  # type: Dict[Tuple[str, str], List[dict]]
    for ex in cells:
        groups.setdefault((ex["cell"]["mode"], ex["cell"]["env"]), []).append(ex)
    wd = tlc.scratch_dir("icv-cfg-")
    n = 0
    try:
        worker = os.path.join(wd, "worker.py")
        with open(worker, "w") as fh:
            fh.write(CONFIG_WORKER)
        for (mode, envslow), exs in sorted(groups.items()):
            cfile = os.path.join(wd, "cells-{}-{}.json".format(mode, envslow))
            with open(cfile, "w") as fh:
                json.dump([e["cell"] for e in exs], fh)
            env = dict(os.environ)
            env["ICV_REPO_PATH"] = repo
            env.pop("ICONTRACT_SLOW", None)
            if envslow == "empty":
                env["ICONTRACT_SLOW"] = ""
            elif envslow == "set":
                env["ICONTRACT_SLOW"] = "1"
            flags = {"normal": [], "O": ["-O"], "OO": ["-OO"]}[mode]
            p = subprocess.run([sys.executable] + flags + [worker, cfile], env=env, stdout=subprocess.PIPE,
                               stderr=subprocess.PIPE, timeout=600)
            if p.returncode != 0:
                raise MachineryError("config worker failed ({}, {}): {}".format(mode, envslow, p.stderr.decode()[-1500:]))
            txt = p.stdout.decode()
            obs = json.loads(txt[txt.index("["):])
            for ex, ob in zip(exs, obs):
                n += 1
                cell = ex["cell"]
                on = ex["on"]
                what = "{} enabled={} under mode={} ICONTRACT_SLOW={} on {}".format(cell["d"], cell["arg"], mode, envslow, cell["c"])
                if ob["outcome"] == "exc":
                    res.violation("mode.behaviour_differs", what + ": " + ob["exc"], {"signature": "mode.behaviour_differs", "cell": cell})
                    continue
                if not on:
                    if not ob["same"]:
                        res.violation("def.not_same_object", what + ": the decorator did not return the object it was given",
                                      {"signature": "def.not_same_object", "cell": cell, "observed": ob})
                    elif ob["attrs"]:
                        res.violation("def.attrs_added", what + ": attributes added / changed: {}".format(ob["attrs"]),
                                      {"signature": "def.attrs_added", "cell": cell, "observed": ob})
                    elif ob["cond_calls"] != 0 or ob["outcome"] != "ret":
                        res.violation("def.callout_when_disabled", what + ": the condition / capture was called {} times, "
                                      "outcome {}".format(ob["cond_calls"], ob["outcome"]),
                                      {"signature": "def.callout_when_disabled", "cell": cell, "observed": ob})
                else:
                    want = "ret" if cell["d"] == "snapshot" else "violation"
                    if ob["outcome"] != want or ob["cond_calls"] < 1:
                        res.violation("mode.behaviour_differs", what + ": the contract is enabled but the outcome is {} "
                                      "(condition/capture calls: {})".format(ob["outcome"], ob["cond_calls"]),
                                      {"signature": "mode.behaviour_differs", "cell": cell, "observed": ob})
    finally:
        shutil.rmtree(wd, ignore_errors=True)
    res.traces += n
    res.evaluations += n
    res.coverage_extra["exhaustive"] = True
    res.samples.append({"cell": cells[7]["cell"], "expected_enabled": cells[7]["on"]})
    res.add_unit("decorators x enabled x interpreter mode x ICONTRACT_SLOW x callable kinds (9 interpreters)", cells=n)


def check_modes_behaviour(res: CheckResult, progs: List[dict], repo: str) -> None:
    """Explicitly enabled contracts behave identically with and without -O / -OO: the event logs the specification
    predicts are replayed in three interpreters."""
    from icv import callcheck as C
    from icv import families as F
    from icv.checks_call import diagnose
    progs = F.number(progs)
    r, logs = C.model_check(progs, C.ALL_OFF)
    if not r.ok:
        raise MachineryError("C15 behaviour unit: {}".format(r.violated or r.error))
    res.states += r.distinct
    res.transitions += r.states
    wd = tlc.scratch_dir("icv-mode-")
    try:
        f = os.path.join(wd, "items.ndjson")
        with open(f, "w") as fh:
            for p in progs:
                fh.write(json.dumps({"prog": p, "expected": [C.norm_expected(e) for e in logs[p["pid"]][0]]}) + "\n")
        for mode, flags in (("normal", []), ("O", ["-O"]), ("OO", ["-OO"])):
            env = dict(os.environ)
            env["ICV_FORCE_ENABLED"] = "1"
            env["ICV_REPO"] = repo
            p = subprocess.run([sys.executable] + flags + ["-m", "icv.modeworker", f], cwd=tlc.VERIF, env=env,
                               stdout=subprocess.PIPE, stderr=subprocess.PIPE, timeout=1800)
            if p.returncode != 0:
                raise MachineryError("mode worker failed ({}): {}".format(mode, p.stderr.decode()[-1500:]))
            txt = p.stdout.decode()
            ob = json.loads(txt[txt.index("{"):])
            if ob["debug"] != (mode == "normal"):
                raise MachineryError("mode worker did not run in the requested mode")
            res.traces += ob["n"]
            byid = {pp["pid"]: pp for pp in progs}
            for mm in ob["mismatches"][:20]:
                res.violation("mode.behaviour_differs",
                              "program {} ({}) behaves differently under interpreter mode {} although every contract is "
                              "explicitly enabled".format(mm["pid"], byid[mm["pid"]].get("tag"), mode),
                              {"signature": "mode.behaviour_differs", "mode": mode, "program": byid[mm["pid"]],
                               "recorded": mm["log"], "expected": [C.norm_expected(e) for e in logs[mm["pid"]][0]]})
            res.add_unit("explicitly enabled contracts replayed under mode " + mode, programs=ob["n"],
                         mismatches=len(ob["mismatches"]))
    finally:
        shutil.rmtree(wd, ignore_errors=True)
