"""python -m icv {setup | check <property> [--tier quick|thorough] | list}"""
import argparse
import os
import sys
import traceback

HERE = os.path.dirname(os.path.dirname(os.path.abspath(__file__)))
if HERE not in sys.path:
    sys.path.insert(0, HERE)


def main() -> int:
    ap = argparse.ArgumentParser(prog="icv")
    sub = ap.add_subparsers(dest="cmd")
    sub.add_parser("setup")
    sub.add_parser("list")
    pc = sub.add_parser("check")
    pc.add_argument("prop")
    pc.add_argument("--tier", default=os.environ.get("VERIF_TIER", "quick"), choices=["quick", "thorough"])
    args = ap.parse_args()
    if args.cmd == "setup":
        from icv import tlc
        bad = 0
        for fn in sorted(os.listdir(tlc.SPEC)):
            if fn.endswith(".tla"):
                ok, out = tlc.sany(os.path.join(tlc.SPEC, fn))
                print("{} {}".format("ok  " if ok else "FAIL", fn))
                if not ok:
                    print(out[-2000:])
                    bad += 1
        from icv import callcheck
        callcheck.load_icontract()
        return 1 if bad else 0
    if args.cmd == "list":
        from icv import registry, registry_all  # noqa
        for k in sorted(registry.CHECKS):
            print(k)
        return 0
    if args.cmd == "check":
        from icv import registry, registry_all  # noqa
        from icv.result import CheckResult, MachineryError
        seed = int(os.environ.get("VERIF_SEED", "0") or 0)
        if args.prop not in registry.CHECKS:
            print("unknown property " + args.prop)
            return 2
        res = CheckResult(args.prop, args.tier, seed)
        try:
            registry.CHECKS[args.prop](res)
        except MachineryError as exc:
            print("MACHINERY-ERROR property={} {}".format(args.prop, exc))
            return 2
        except Exception:
            traceback.print_exc()
            print("MACHINERY-ERROR property={} unexpected exception".format(args.prop))
            return 2
        return res.finish()
    ap.print_help()
    return 2


if __name__ == "__main__":
    sys.exit(main())
