"""ICMsg pipeline (C20): message assembly cases -> TLC (which lines, in which order, how long) -> worker
interpreters with different PYTHONHASHSEED -> comparison."""
import itertools
import json
import os
import random
import shutil
import subprocess
import sys
from typing import Any, Dict, List, Tuple

from icv import tlc
from icv.result import CheckResult, MachineryError

KINDS = ["int", "str", "list", "strset", "cls", "func", "method", "mod", "modsub", "builtin", "mwrapper"]


def gen_cases(tier: str, rng: random.Random) -> List[dict]:
    cases = []
    limits = [(True, 256, 50), (False, 12, 3), (False, 40, 6)]
    for default_repr, ms, ml in limits:
        sizes = {"int": [7], "str": [3, ms - 3, ms - 2, ms - 1, ms + 7, 5 * ms], "list": [ml - 1, ml, ml + 1, 4 * ml],
                 "strset": [2, ml, ml + 2]}
        arg_opts = []
        for k in KINDS:
            for sz in sizes.get(k, [0]):
                arg_opts.append((k, sz))
        for nargs in (1, 2, 3):
            combos = list(itertools.product(arg_opts, repeat=nargs))
            budget = {1: 10 ** 6, 2: 120, 3: 150}[nargs] * (1 if tier == "quick" else 6)
            if len(combos) > budget:
                combos = rng.sample(combos, budget)
            for ci, combo in enumerate(combos):
                perms = list(itertools.permutations(range(1, nargs + 1)))
                for flavour in ("named", "lambda"):
                    na, nk = rng.random() < 0.3, rng.random() < 0.3
                    for order in perms:
                        cases.append({"mid": len(cases) + 1, "flavour": flavour, "default_repr": default_repr,
                                      "maxstring": ms, "maxlist": ml, "named_args": na, "named_kwargs": nk,
                                      "args": [{"name": "abc"[i], "kind": k, "size": sz} for i, (k, sz) in enumerate(combo)],
                                      "order": list(order), "role": "pre", "result": {"name": "result", "kind": "int", "size": 7}})
                        # the same violation as a postcondition and (one value, as an attribute) as an invariant
                        if nargs == 1 or rng.random() < 0.25:
                            # (the function returns a value of some kind: a result that is a class / function / method /
                            #  module / builtin must be left out like an argument of that kind)
                            rk = KINDS[(ci + nargs) % len(KINDS)]
                            cases.append(dict(cases[-1], mid=len(cases) + 1, role="post",
                                              result={"name": "result", "kind": rk, "size": sizes.get(rk, [0])[0]}))
                        if nargs == 1:
                            cases.append(dict(cases[-1], mid=len(cases) + 1, role="inv", named_args=False,
                                              named_kwargs=False))
        # quantifier: the counterexample is rendered through the contract's a_repr as well
        for k, sz in (("list", 3), ("strset", 4), ("strset", ml + 2), ("list", 4 * ml), ("str", 5 * ms), ("str", 3)):
            for na in (False, True):
                cases.append({"mid": len(cases) + 1, "flavour": "quant", "default_repr": default_repr, "maxstring": ms,
                              "maxlist": ml, "named_args": na, "named_kwargs": False,
                              "args": [{"name": "a", "kind": k, "size": sz}, {"name": "b", "kind": "str", "size": 5 * ms}],
                              "order": [2, 1], "role": "pre", "result": {"name": "result", "kind": "int", "size": 7}})
    # a quantifier with nested loops that bind the same target name twice (the `_` idiom): the example lines keep the
    # order of first appearance in every process
    for default_repr, ms, ml in limits:
        for order in ([1, 2], [2, 1]):
            cases.append({"mid": len(cases) + 1, "flavour": "quant2", "default_repr": default_repr, "maxstring": ms,
                          "maxlist": ml, "named_args": False, "named_kwargs": False,
                          "args": [{"name": "a", "kind": "list", "size": 1}, {"name": "b", "kind": "list", "size": 1}],
                          "order": order, "role": "pre", "result": {"name": "result", "kind": "int", "size": 7}})
    return cases


def msg_cfg() -> str:
    return ("SPECIFICATION MSpec\nCONSTANTS\n  MsgSpace <- MCMsgSpace\nINVARIANT Canonical\nINVARIANT LeftOut\n"
            "INVARIANT Bounded\nINVARIANT PrintExpected\nCHECK_DEADLOCK FALSE\n")


def run_workers(cases: List[dict], seeds: List[int]) -> Dict[int, List[dict]]:
    wd = tlc.scratch_dir("icv-msgw-")
    try:
        cfile = os.path.join(wd, "cases.ndjson")
        with open(cfile, "w") as fh:
            for c in cases:
                fh.write(json.dumps(c) + "\n")
        procs = {}
        for s in seeds:
            env = dict(os.environ)
            env["PYTHONHASHSEED"] = str(s)
            procs[s] = subprocess.Popen([sys.executable, "-m", "icv.msgworker", cfile], cwd=tlc.VERIF, env=env,
                                        stdout=subprocess.PIPE, stderr=subprocess.PIPE)
        out = {}
        for s, p in procs.items():
            so, se = p.communicate(timeout=1800)
            if p.returncode != 0:
                raise MachineryError("message worker failed (seed {}): {}".format(s, se.decode()[-1500:]))
            out[s] = json.loads(so.decode()[so.decode().index("["):])
        return out
    finally:
        shutil.rmtree(wd, ignore_errors=True)


def check_messages(res: CheckResult, tier: str, rng: random.Random, only_clauses: Any = None, flavours: Any = None) -> None:
    """only_clauses / flavours: report only these clauses, over the cases of these flavours (C06 runs the quantifier
    cases for "the configured repr of exactly the value")."""
    cases = [c for c in gen_cases(tier, rng) if flavours is None or c["flavour"] in flavours]

    def _v(clause: str, what: str, replay: dict) -> None:
        if only_clauses is None or clause in only_clauses:
            res.violation(clause, what, replay)
    wd = tlc.scratch_dir("icv-msg-")
    try:
        cfile = os.path.join(wd, "cases.ndjson")
        with open(cfile, "w") as fh:
            for c in cases:
                fh.write(json.dumps(c) + "\n")
        r = tlc.run_tlc("MC_Msg", msg_cfg(), wd, workers=16, env={"MSGCASES": cfile})
    finally:
        shutil.rmtree(wd, ignore_errors=True)
    if not r.ok:
        raise MachineryError("ICMsg: {}".format(r.violated or r.error))
    res.states += r.distinct
    res.transitions += r.states
    expected = {p["mid"]: p for p in r.prints if isinstance(p, dict) and "mid" in p}
    seeds = [0, 1, 2, 1000 + res.seed]
    outs = run_workers(cases, seeds)
    import re as _re
    for s in seeds:
        for o in outs[s]:
            # object addresses inside reprs of functions / bound methods differ between processes by nature
            o["msgs"] = [None if m is None else _re.sub(r"0x[0-9a-f]+", "0xADDR", m) for m in o["msgs"]]
            o["rendered"] = {k: _re.sub(r"0x[0-9a-f]+", "0xADDR", v) for k, v in o["rendered"].items()}
    by_seed = {s: {o["mid"]: o for o in outs[s]} for s in seeds}
    base_key = {}  # type: Dict[str, Tuple[int, Any]]
    nlines = 0
    for c in cases:
        mid = c["mid"]
        o0 = by_seed[seeds[0]][mid]
        msgs = o0["msgs"]
        what_case = "case {} {} args={} order={}".format(mid, c["flavour"], [(a["kind"], a["size"]) for a in c["args"]], c["order"])
        # identical on repetition and across hash seeds
        variants = {json.dumps(by_seed[s][mid]["msgs"]) for s in seeds}
        if len(variants) != 1 or msgs[0] != msgs[1]:
            _v("msg.differs_across_runs", what_case + ": the message differs between hash seeds / repetitions",
                          {"signature": "msg.differs_across_runs", "case": c,
                           "messages": {str(s): by_seed[s][mid]["msgs"] for s in seeds}})
            continue
        msg = msgs[0]
        if msg is None or msg.startswith("EXC "):
            _v("msg.differs_across_runs", what_case + ": no violation message: {!r}".format(msg),
                          {"signature": "msg.differs_across_runs", "case": c})
            continue
        # identical for every keyword order of the same call
        key = json.dumps([c["flavour"], c["default_repr"], c["maxstring"], c["named_args"], c["named_kwargs"], c["args"],
                          c.get("role"), c.get("result")])
        body = "\n".join(msg.split("\n")[1:])
        if key in base_key and base_key[key][1] != body:
            _v("msg.differs_across_runs",
                          what_case + ": the message depends on the keyword order (case {})".format(base_key[key][0]),
                          {"signature": "msg.differs_across_runs", "case": c, "message": body, "other": base_key[key][1]})
            continue
        base_key.setdefault(key, (mid, body))
        # lines: "<key> was <value>" (the first line after the location carries the condition text)
        lines = body.split("\n")
        head = lines[0]
        entries = []
        if ": " in head and " was " in head.split(": ", 1)[1]:
            entries.append(head.split(": ", 1)[1])
        entries += [l for l in lines[1:] if " was " in l and not l.startswith("  ")]
        keys = [e.split(" was ", 1)[0] for e in entries]
        vals = {e.split(" was ", 1)[0]: e.split(" was ", 1)[1] for e in entries}
        if c.get("role") == "inv":
            # the value is an attribute of the instance: `self.a` stands for the argument `a` of the case; the
            # instance itself must be rendered through the contract's a_repr as well
            if vals.get("self") != o0["rendered"]["self"]:
                _v("msg.repr_not_contracts",
                              what_case + ": `self` is shown as {!r}, the contract's a_repr gives {!r}".format(
                                  str(vals.get("self"))[:80], o0["rendered"]["self"][:80]),
                              {"signature": "msg.repr_not_contracts", "case": c, "message": body})
                continue
            raw_keys = list(keys)
            keys = [k[5:] if k.startswith("self.") else k for k in keys if k != "self"]
            vals = {(k[5:] if k.startswith("self.") else k): v for k, v in vals.items() if k != "self"}
        sort_keys = raw_keys if c.get("role") == "inv" else keys
        if sort_keys != sorted(sort_keys):
            _v("msg.unsorted", what_case + ": value lines are not sorted: {}".format(sort_keys),
                          {"signature": "msg.unsorted", "case": c, "message": body})
            continue
        exp = expected.get(mid)
        if exp is None:
            raise MachineryError("no specification output for message case {}".format(mid))
        if "result" in keys and not exp["result_ok"]:
            _v("msg.nonrepresentable_shown", what_case + ": the result (a {}) is listed: {!r}".format(
                c["result"]["kind"], str(vals.get("result"))[:80]), {"signature": "msg.nonrepresentable_shown", "case": c, "message": body})
            continue
        arg_names = {a["name"] for a in c["args"]} | {"_ARGS", "_KWARGS"}
        got_names = [k for k in keys if k in arg_names]
        if c.get("role") == "inv" and c["flavour"] == "named":
            continue  # the named invariant condition does not reference the attribute: only `self` is listed
        if got_names != list(exp["lines"]):
            clause = "msg.nonrepresentable_shown" if set(got_names) - set(exp["lines"]) else "msg.value_missing_arg"
            if {"_ARGS", "_KWARGS"} & (set(got_names) ^ set(exp["lines"])):
                clause = "msg.args_kwargs_shown"
            _v(clause, what_case + ": argument lines {} but the specification says {}".format(got_names, exp["lines"]),
                          {"signature": clause, "case": c, "message": body})
            continue
        for j, nm in enumerate(exp["lines"]):
            nlines += 1
            if nm in ("_ARGS", "_KWARGS") or (c["flavour"] == "quant" and nm == c["args"][0]["name"]):
                continue
            want = o0["rendered"][nm]
            if vals[nm] != want:
                _v("msg.repr_not_contracts",
                              what_case + ": `{}` is shown as {!r}, the contract's a_repr gives {!r}".format(nm, vals[nm][:80], want[:80]),
                              {"signature": "msg.repr_not_contracts", "case": c, "message": body})
                break
            if exp["strlen"][j] and len(vals[nm]) != exp["strlen"][j]:
                raise MachineryError("ICMsg ReprStrLen disagrees with reprlib: {} vs {}".format(exp["strlen"][j], len(vals[nm])))
        if c["flavour"] == "quant" and o0["first"] is not None:
            m = [l for l in lines if l.startswith("  e = ")]
            if not m or m[0] != "  e = " + o0["first"]:
                _v("msg.repr_not_contracts",
                              what_case + ": the quantifier's example is shown as {!r}, the contract's a_repr gives {!r}".format(
                                  (m or ["<missing>"])[0][:90], ("  e = " + o0["first"])[:90]),
                              {"signature": "msg.repr_not_contracts", "case": c, "message": body})
        if len(res.violations) > 40:
            break
    res.traces += len(cases) * len(seeds)
    res.evaluations += nlines
    res.samples.append({"case": cases[len(cases) // 3], "expected": expected.get(cases[len(cases) // 3]["mid"])})
    res.add_unit("message assembly: argument kinds x sizes around the a_repr limits x keyword orders x hash seeds",
                 cases=len(cases), seeds=seeds, lines_compared=nlines)


def check_multiline_keys(res: CheckResult) -> None:
    """Canonical order with expression texts that span lines (one text a prefix of another that continues on the
    next line): the lines must be ordered by expression TEXT, not by the finished line."""
    import linecache
    from icv import callcheck
    ic = callcheck.load_icontract()
    variants = [
        ("lambda x: (ident(x)\n        .bit_length()) > 100", ["ident(x)", "ident(x)\n        .bit_length()", "x"]),
        ("lambda x: (ident(x)\n        .bit_length()\n        .bit_length()) > 100",
         ["ident(x)", "ident(x)\n        .bit_length()", "ident(x)\n        .bit_length()\n        .bit_length()", "x"]),
        ("lambda x: (ident(x).real\n        .bit_length()) > 100", ["ident(x)", "ident(x).real", "ident(x).real\n        .bit_length()", "x"]),
    ]
    n = 0
    for i, (cond, keys) in enumerate(variants):
        src = "import icontract\n@icontract.require(\n    {})\ndef f(x):\n    return 1\n".format(cond)
        fname = "<icv-msg-ml-{}>".format(i)
        linecache.cache[fname] = (len(src), None, src.splitlines(True), fname)
        ns = {"ident": (lambda v: v)}
        exec(compile(src, fname, "exec"), ns)
        for xv in (5, 12):
            n += 1
            try:
                ns["f"](xv)
                msg = None
            except ic.ViolationError as exc:
                msg = str(exc)
            values = {"x": xv, "ident(x)": xv, "ident(x).real": xv}
            cur = xv
            vals = {}
            for k in keys:
                if k == "x" or k == "ident(x)" or k == "ident(x).real":
                    vals[k] = repr(xv)
                else:
                    depth = k.count(".bit_length()")
                    v = xv
                    for _ in range(depth):
                        v = v.bit_length()
                    vals[k] = repr(v)
            want = "\n".join("{} was {}".format(k, vals[k]) for k in sorted(keys))
            if msg is None or not msg.endswith(":\n" + want):
                res.violation("msg.unsorted",
                              "multi-line condition {!r} x={}: the value part of the message is not the lines sorted by "
                              "expression text: {!r}".format(cond, xv, msg),
                              {"signature": "msg.unsorted", "condition": cond, "x": xv, "message": msg, "want": want})
        linecache.cache.pop(fname, None)
    res.traces += n
    res.add_unit("expression texts spanning several lines (prefix texts continued on the next line)", cases=n)
