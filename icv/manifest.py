"""Write MANIFEST.json from the registry (python -m icv.manifest)."""
import json
import os
import sys

HERE = os.path.dirname(os.path.dirname(os.path.abspath(__file__)))
sys.path.insert(0, HERE)

TEXT = {
    "C01": ("ICCall.tla: PreGate/PreBlock model-checked on every behaviour of the pre-gate family (9 callable kinds x 9 "
            "precondition shapes x all truth assignments x surrounding post/snapshot/invariants x sync/async x error "
            "forms); every behaviour replayed on the implementation and compared event by event; divergences diagnosed "
            "by the trace specification (clause tags C01); random programs beyond the bounds validated as traces."),
    "C02": ("ICCall.tla: PostGate/PostBlock/ExcPass on postcondition stacks 0..3 x all truth assignments x body outcomes "
            "(objects, None, Exception, KeyboardInterrupt, SystemExit, GeneratorExit) x kinds x sync/async; replay with "
            "identity of returned / raised objects."),
    "C03": ("ICCall.tla: invariant wrappers, constructor wrapper, __new__ wrapper; families: member kinds x check_on "
            "combinations x operation sequences x object-state flips, async members, subclass constructors calling "
            "super().__init__ at different positions; member-selection rule (which members are wrapped) is the reference "
            "used to build the programs, so a member wrongly wrapped / not wrapped shows as a divergence."),
    "C08": "ICCall.tla: CaptureWindow/OldIsCaptured; snapshots 0..2 x postconditions 0..2 x precondition outcome x kinds x "
           "sync/async x capture flavours (sync, coroutine function, coroutine-returning).",
    "C09": "ICCall.tla: the four-way error dispatch of _create_violation_error as a sub-machine (mkerr); error forms x roles "
           "x kinds x sync/async; identity of raised instances and factory results, factory call counts via events.",
    "C10": "ICCall.tla: SkipExactly, MarksMatchFrames, Bounded on call graphs among two functions / two instances where "
           "conditions, bodies and invariants re-enter; replay with a watchdog (runaway recursion is a violation).",
    "C11": "ICCall.tla: Rearmed/MarksMatchFrames; a fault of 9 exception kinds injected at every crossing (k-th user-code "
           "activation) of checked calls, pairs of faults, cancellation/close at every suspension point; probe calls.",
    "C12": "ICCall.tla: VerdictIndependent/MarksMatchFrames over ALL interleavings (VIEW hides the history) of 2-3 tasks x "
           "context-inheritance modes; sampled schedules replayed deterministically (baton threads; real asyncio tasks).",
    "C13": "ICCall.tla has one set of actions parameterised by async[f]; placements of sync/coroutine/awaitable conditions "
           "and captures on sync/async callables; programs rendered with def and async def must give equal event logs.",
    "C16": "ICCall.tla: the event sequence of the deterministic machine is the reference order; families with several falsy "
           "contracts at different positions / groups / levels x all truth assignments; culprit identity per contract.",
}

LEVEL_NOTE = ("Trusted: TLC/SANY + CommunityModules, CPython 3.12, the harness (icv/: renderer, schedulers, parsers). "
              "Bounded: held on everything explored inside the family bounds; no unbounded proof. The specification with "
              "all deviation switches off states the property; the implementation is bound to it by replay "
              "(spec -> code) and trace validation (code -> spec).")


def main() -> None:
    from icv import registry, registry_all  # noqa
    checks = []
    for pid in sorted(registry.CHECKS):
        checks.append({
            "property_id": pid,
            "quick_cmd": "/venv/bin/python -m icv check {} --tier quick".format(pid),
            "thorough_cmd": "/venv/bin/python -m icv check {} --tier thorough".format(pid),
            "evidence_file": "/verif/evidence/{}.json".format(pid),
            "replay_cmd_template": "/venv/bin/python -m icv replay {path}",
            "engine": "tlc+icv",
            "level_claimed": {"category": "model_checking", "text": TEXT.get(pid, registry_all.TEXT.get(pid, "")),
                              "design_ref": "DESIGN.md section 5 ({})".format(pid)},
            "level_note": LEVEL_NOTE,
            "technique": "explicit TLA+ specification model-checked with TLC, bound to the code by replay of TLC "
                         "behaviours and TLC trace validation",
        })
    props = [json.loads(l)["id"] for l in open(os.path.join(HERE, "properties.jsonl"))]
    na = [{"property_id": p, "reason": registry_all.NOT_APPLICABLE.get(p, "check under construction in this round (not claimed yet)")}
          for p in props if p not in registry.CHECKS]
    man = {
        "version": 1,
        "setup_cmd": "/venv/bin/python -m icv setup",
        "hooks": {
            "guard": "ICONTRACT_VERIF",
            "enable": "no source hooks exist: observation goes through harness-supplied callables, the documented "
                      "introspection interface and icontract._checkers._IN_PROGRESS; the guard name is reserved",
            "baseline_off_cmd": "cd /repo && /venv/bin/python -m pytest -ra -q -p no:cacheprovider --timeout=900 "
                                "--continue-on-collection-errors",
            "source_commits": [],
            "add_only": True,
        },
        "engines": [
            {"name": "tlc+icv", "path": "/verif/spec + /verif/icv",
             "serves_properties": sorted(registry.CHECKS),
             "kind_free_text": "TLA+ specifications (spec/*.tla) checked with TLC 1.8; Python harness (icv/) renders "
                               "abstract programs onto the real icontract, replays TLC behaviours and records traces "
                               "that TLC validates"}],
        "checks": checks,
        "not_applicable": na,
        "notes": "fix: commits in /repo repair genuine defects found by these checks (known_findings.json lists them); "
                 "exit 2 = machinery failure (never a VIOLATION). Measured on 16 cores: the quick commands take 15-240 s each "
                 "(about 32 min for all twenty); the thorough commands 20 s-16 min each, except C10 (215 000 re-entrant call "
                 "graphs, 88 M states: 35-65 min) - about 2 h for all twenty. Known findings (status known in "
                 "known_findings.json: F18b, F25, F34) are printed as KNOWN-FINDING lines by the checks of C04/C14/C17/C18 and "
                 "C06 and do not change the exit code 0.",
    }
    with open(os.path.join(HERE, "MANIFEST.json"), "w") as fh:
        json.dump(man, fh, indent=1)
    print("wrote MANIFEST.json with {} checks, {} not_applicable".format(len(checks), len(na)))


if __name__ == "__main__":
    main()
