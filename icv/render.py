"""Turn a program record into Python source using the real icontract decorators, and execute it."""
import linecache
from typing import Any, Dict, List

from icv.harness import Runtime, ErrInst, ErrInstB, ErrInstF

import os as _os

# the configuration check (C15) renders every contract with an explicit enabled=True and replays under -O / -OO
FORCE_ENABLED = bool(_os.environ.get("ICV_FORCE_ENABLED"))

SELF_KINDS = ("method", "setter", "init", "getter", "deleter", "protected", "private", "dunder", "repr", "setattr")


def member_name(prog: dict, f: int) -> str:
    kind = prog["fn"][f - 1]["kind"]
    return {"init": "__init__", "new": "__new__", "protected": "_m{}".format(f), "private": "__m{}".format(f),
            "dunder": "__call__", "repr": "__repr__", "setattr": "__setattr__"}.get(kind, "m{}".format(f))


def _params(kind: str) -> List[str]:
    if kind in ("func", "static", "class", "new"):
        return ["x"]
    if kind in ("getter", "deleter", "repr"):
        return ["self"]
    return ["self", "x"]


def owners(prog: dict) -> Dict[int, int]:
    """Contract id -> owning callable (0 for invariants); snapshot ids likewise under key ('s', id)."""
    own = {}  # type: Dict[Any, int]
    for fi, fn in enumerate(prog["fn"], 1):
        for g in fn["pre"]:
            for c in g:
                own[c] = fi
        for c in fn["post"]:
            own[c] = fi
        for s in fn["snap"]:
            own[("s", s)] = fi
    for k in prog["cls"]:
        for c in k["inv"]:
            own.setdefault(c, 0)
    return own


def _cond_def(prog: dict, c: int, role: str, owner: int, params: List[str], indent: str) -> List[str]:
    """Source lines defining cond_<c> (and errf_<c>) unless it is a lambda; returns definitions."""
    con = prog["con"][c - 1]
    eparams = params
    if con.get("noold"):
        params = [p for p in params if p != "OLD"]
    ekw = ", ".join("{0}={0}".format(p) for p in eparams)
    # errdefaults: every parameter of the error factory carries a default (it must still receive the call's values)
    esig = ", ".join(("{}=None".format(p) if prog.get("errdefaults") else p) for p in eparams)
    if con.get("wants_args"):
        # the condition also asks for the positional arguments of the call as a whole
        params = params + ["_ARGS"]
    owner_async = bool(owner) and prog["fn"][owner - 1]["async"]
    kw = ", ".join("{0}={0}".format(p) for p in params)
    sig = ", ".join(params)
    lines = []
    rv = con["rv"]
    if not con["lam"]:
        if rv == "corofn":
            lines.append("{}async def cond_{}({}):".format(indent, c, sig))
            lines.append("{}    return await H.cond_async({}, {!r}, {}, {})".format(indent, c, role, owner, kw))
        elif rv == "coro" and owner_async:
            lines.append("{}def cond_{}({}):".format(indent, c, sig))
            lines.append("{}    return H.cond_async({}, {!r}, {}, {})".format(indent, c, role, owner, kw))
        elif rv in ("future", "futureraise"):
            lines.append("{}def cond_{}({}):".format(indent, c, sig))
            lines.append("{}    return H.cond_future({}, {!r}, {}, {})".format(indent, c, role, owner, kw))
        else:
            lines.append("{}def cond_{}({}):".format(indent, c, sig))
            lines.append("{}    return H.cond({}, {!r}, {}, {})".format(indent, c, role, owner, kw))
    if con["err"] in ("factory", "badfactory"):
        lines.append("{}def errf_{}({}):".format(indent, c, esig))
        lines.append("{}    return H.errf({}, {!r}, {}, {})".format(indent, c, role, owner, ekw))
        if prog.get("errf_wrapped"):
            # the factory went through an ordinary functools.wraps decorator (logging, counting, ...)
            lines.append("{}errf_{} = H.wrapped(errf_{})".format(indent, c, c))
    if con["err"] == "class":
        lines.append("{}class ErrClass_{}({}):".format(indent, c, "BaseException" if prog.get("errbase") else "Exception"))
        if prog.get("errfalsy"):
            lines.append("{}    def __len__(self):".format(indent))
            lines.append("{}        return 0".format(indent))
        else:
            lines.append("{}    pass".format(indent))
        lines.append("{}H.err_class[{}] = ErrClass_{}".format(indent, c, c))
    return lines


def _decorator(prog: dict, c: int, role: str, owner: int, params: List[str], check_on: str = "") -> str:
    con = prog["con"][c - 1]
    if con.get("noold"):
        params = [p for p in params if p != "OLD"]
    kw = ", ".join("{0}={0}".format(p) for p in params)
    sig = ", ".join(params)
    if con["lam"]:
        cond = "lambda {}: H.cond({}, {!r}, {}, {})".format(sig, c, role, owner, kw)
    else:
        cond = "cond_{}".format(c)
    args = [cond]
    if con["err"] == "class":
        args.append("error=ErrClass_{}".format(c))
    elif con["err"] == "inst":
        args.append("error=H.mk_inst({})".format(c))
    elif con["err"] in ("factory", "badfactory"):
        args.append("error=errf_{}".format(c))
    if con.get("enabled", True) is not True:
        args.append("enabled={}".format(con["enabled"]))
    elif FORCE_ENABLED:
        args.append("enabled=True")
    dec = {"pre": "require", "post": "ensure", "inv": "invariant"}[role]
    if check_on:
        args.append("check_on=icontract.InvariantCheckEvent.{}".format(check_on))
    return "@icontract.{}({})".format(dec, ", ".join(args))


def _snap_decorator(prog: dict, s: int, owner: int, params: List[str]) -> str:
    return "@icontract.snapshot(cap_{}, name='s{}'{})".format(s, s, ", enabled=True" if FORCE_ENABLED else "")


def _snap_def(prog: dict, s: int, owner: int, params: List[str], indent: str) -> List[str]:
    snp = prog["snp"][s - 1]
    kw = ", ".join("{0}={0}".format(p) for p in params)
    sig = ", ".join(params)
    owner_async = prog["fn"][owner - 1]["async"]
    if snp.get("noargs"):
        # a capture that takes none of the arguments of the call (it reads the world outside)
        kw, sig = "", ""
    if snp["rv"] == "corofn":
        return ["{}async def cap_{}({}):".format(indent, s, sig),
                "{}    return await H.cap_async({}, {}, {})".format(indent, s, owner, kw)]
    if snp["rv"] == "coro" and owner_async:
        return ["{}def cap_{}({}):".format(indent, s, sig),
                "{}    return H.cap_async({}, {}, {})".format(indent, s, owner, kw)]
    return ["{}def cap_{}({}):".format(indent, s, sig),
            "{}    return H.cap({}, {}, {})".format(indent, s, owner, kw)]


def _fn_source(prog: dict, f: int, indent: str, groups: List[List[int]], with_post: bool, name: str) -> List[str]:
    """Decorators + def of callable f, declaring the given precondition groups' own part."""
    fn = prog["fn"][f - 1]
    kind = fn["kind"]
    params = _params(kind)
    lines = []  # type: List[str]
    pre_own = groups
    post = fn["post"] if with_post else []
    snaps = fn["snap"] if with_post else []
    post_params = params + ["result"] + (["OLD"] if fn["snap"] else [])
    # definitions of named conditions
    for c in pre_own:
        lines += _cond_def(prog, c, "pre", f, params, indent)
    for c in post:
        lines += _cond_def(prog, c, "post", f, post_params, indent)
    for s in snaps:
        lines += _snap_def(prog, s, f, params, indent)
    decos = []  # type: List[str]
    # evaluation order: preconditions as listed, postconditions as listed; the decorator nearest to the
    # function is evaluated first, so decorators are written in reverse order
    for c in reversed(pre_own):
        decos.append(_decorator(prog, c, "pre", f, params))
    # snapshots must sit above at least one postcondition
    post_decos = [_decorator(prog, c, "post", f, post_params) for c in reversed(post)]
    snap_decos = [_snap_decorator(prog, s, f, params) for s in reversed(snaps)]
    # order (top to bottom): preconditions, snapshots, postconditions  -> all valid placements keep snapshots
    # above the postconditions
    body_call = {True: "await H.body_async", False: "H.body"}[fn["async"]]
    adef = "async def" if fn["async"] else "def"
    xkw = ", **extra_kw" if prog.get("badkw") else ""   # programs with calls passing an unexpected keyword
    if kind == "func":
        head = []
        deco_all = decos + snap_decos + post_decos
        lines += [indent + d for d in deco_all]
        lines.append("{}{} {}(x{}):".format(indent, adef, name, xkw))
        lines.append("{}    return {}({}, None, x)".format(indent, body_call, f))
    elif kind in ("method", "protected", "private", "dunder"):
        lines += [indent + d for d in decos + snap_decos + post_decos]
        lines.append("{}{} {}(self, x{}):".format(indent, adef, name, xkw))
        lines.append("{}    return {}({}, self, x)".format(indent, body_call, f))
    elif kind == "repr":
        lines.append("{}def __repr__(self):".format(indent))
        lines.append("{}    H.body({}, self, None)".format(indent, f))
        lines.append("{}    return 'K'".format(indent))
    elif kind == "setattr":
        # (defs_via_alias: the special method is written under an ordinary name and bound to the special name afterwards)
        sname = "_guarded_set" if prog.get("defs_via_alias") else "__setattr__"
        lines.append("{}def {}(self, name, x):".format(indent, sname))
        lines.append("{}    H.body({}, self, x)".format(indent, f))
        lines.append("{}    object.__setattr__(self, name, x)".format(indent))
        if sname != "__setattr__":
            lines.append("{}__setattr__ = {}".format(indent, sname))
    elif kind == "init":
        iname = "_setup" if prog.get("defs_via_alias") else "__init__"
        lines += [indent + d for d in decos + snap_decos + post_decos]
        lines.append("{}def {}(self, x):".format(indent, iname))
        lines.append("{}    H.body({}, self, x)".format(indent, f))
        if iname != "__init__":
            lines.append("{}__init__ = {}".format(indent, iname))
    elif kind == "new":
        lines += [indent + d for d in decos + snap_decos + post_decos]
        lines.append("{}def __new__(cls, x):".format(indent))
        lines.append("{}    self = object.__new__(cls)".format(indent))
        lines.append("{}    H.body({}, self, x)".format(indent, f))
        lines.append("{}    return self".format(indent))
    elif kind == "static":
        lines.append(indent + "@staticmethod")
        lines += [indent + d for d in decos + snap_decos + post_decos]
        lines.append("{}{} {}(x{}):".format(indent, adef, name, xkw))
        lines.append("{}    return {}({}, None, x)".format(indent, body_call, f))
    elif kind == "class":
        lines.append(indent + "@classmethod")
        lines += [indent + d for d in decos + snap_decos + post_decos]
        lines.append("{}{} {}(cls, x{}):".format(indent, adef, name, xkw))
        lines.append("{}    return {}({}, None, x)".format(indent, body_call, f))
    elif kind == "getter":
        lines.append(indent + "@property")
        lines += [indent + d for d in decos + snap_decos + post_decos]
        lines.append("{}def {}(self):".format(indent, name))
        lines.append("{}    return H.body({}, self, None)".format(indent, f))
    elif kind == "setter":
        # a property with a trivial getter and the contracted setter
        lines.append(indent + "@property")
        lines.append("{}def {}(self):".format(indent, name))
        lines.append("{}    return None".format(indent))
        lines.append("{}@{}.setter".format(indent, name))
        lines += [indent + d for d in decos + snap_decos + post_decos]
        lines.append("{}def {}(self, x):".format(indent, name))
        lines.append("{}    H.body({}, self, x)".format(indent, f))
    elif kind == "deleter":
        lines.append(indent + "@property")
        lines.append("{}def {}(self):".format(indent, name))
        lines.append("{}    return None".format(indent))
        lines.append("{}@{}.deleter".format(indent, name))
        lines += [indent + d for d in decos + snap_decos + post_decos]
        lines.append("{}def {}(self):".format(indent, name))
        lines.append("{}    H.body({}, self, None)".format(indent, f))
    else:
        raise NotImplementedError(kind)
    return lines


def gen_source(prog: dict) -> str:
    lines = ["import icontract", ""]
    ncls = len(prog["cls"])
    members = {k: [] for k in range(1, ncls + 1)}  # type: Dict[int, List[int]]
    for fi, fn in enumerate(prog["fn"], 1):
        if fn["cls"]:
            members[fn["cls"]].append(fi)
    # plain functions
    for fi, fn in enumerate(prog["fn"], 1):
        if fn["cls"] == 0:
            groups = fn["pre"]
            assert len(groups) <= 1, "a plain function has at most one precondition group"
            lines += _fn_source(prog, fi, "", groups[0] if groups else [], True, "f{}".format(fi))
            lines.append("H.fn_callable[{}] = f{}".format(fi, fi))
            lines.append("")
    # classes: one level per precondition group of the deepest member
    for k in range(1, ncls + 1):
        kc = prog["cls"][k - 1]
        levels = max([1] + [len(prog["fn"][f - 1]["pre"]) for f in members[k]])
        # bare_override: one more class level that overrides every member WITHOUT contracts of its own (the metaclass
        # creates its checker from the inherited contracts); the effective contracts are what they were
        bare = levels + 1 if prog.get("bare_override") else 0
        if bare:
            levels = bare
        kbase = kc.get("base", 0)
        base_inv = prog["cls"][kbase - 1]["inv"] if kbase else []
        own_inv = [c for c in kc["inv"] if c not in base_inv]
        for c in own_inv:
            lines += _cond_def(prog, c, "inv", 0, ["self"], "")
        # late_members: the plain public methods are not written in the class body; a class decorator placed between the
        # first (innermost) and the second invariant decorator adds them (what a mix-in / registration decorator does)
        late = []  # type: List[int]
        if prog.get("late_members") and levels == 1 and len(own_inv) >= 2 and not kbase:
            late = [f for f in members[k] if prog["fn"][f - 1]["kind"] == "method" and not prog["fn"][f - 1]["pre"]
                    and not prog["fn"][f - 1]["post"]]
            for f in late:
                lines += _fn_source(prog, f, "", [], False, "late_{}".format(f))
            lines.append("def add_late_{}(cls):".format(k))
            for f in late:
                lines.append("    cls.{} = late_{}".format(member_name(prog, f), f))
            lines.append("    return cls")
        for lvl in range(1, levels + 1):
            if lvl == 1:
                for ci, c in enumerate(reversed(own_inv)):
                    on = "ALL" if (c in kc["oncall"] and c in kc["onset"]) else ("SETATTR" if c in kc["onset"] else "CALL")
                    if late and ci == len(own_inv) - 1:
                        lines.append("@add_late_{}".format(k))
                    lines.append(_decorator(prog, c, "inv", 0, ["self"], check_on=on if on != "CALL" else ""))
                if kbase:
                    base = "H.classes[{}]".format(kbase)
                else:
                    base = "icontract.DBC" if (kc.get("dbc", True) or levels > 1) else "object"
            else:
                base = "K{}_{}".format(k, lvl - 1)
            lines.append("class K{}_{}({}):".format(k, lvl, base))
            body = []  # type: List[str]
            if kc.get("slots"):
                body.append("    __slots__ = ('_st',)")
            for f in members[k]:
                fn = prog["fn"][f - 1]
                n = len(fn["pre"])
                if f in late:
                    continue
                if fn.get("alias_of"):
                    continue   # bound below: a second, public name of the constructor
                if bare and lvl == bare:
                    if fn["kind"] not in ("init", "new", "repr", "setattr"):
                        body += _fn_source(prog, f, "    ", [], False, member_name(prog, f))
                    continue
                first = (levels - 1 if bare else levels) - max(n, 1) + 1
                if fn["kind"] in ("init", "new"):
                    # constructors are declared once, in the root class (their contracts are not inherited)
                    if lvl != 1:
                        continue
                    first = 1
                if lvl < first:
                    continue
                j = lvl - first + 1  # index of the group declared at this level
                group = fn["pre"][j - 1] if n >= j else []
                with_post = (lvl == first)
                name = member_name(prog, f)
                body += _fn_source(prog, f, "    ", group, with_post, name)
            if lvl == 1:
                for f in members[k]:
                    if prog["fn"][f - 1].get("alias_of"):
                        body.append("    {} = __init__".format(member_name(prog, f)))
            if not body:
                body = ["    pass"]
            lines += body
            lines.append("")
        lines.append("H.classes[{}] = K{}_{}".format(k, k, levels))
        for f in members[k]:
            fn = prog["fn"][f - 1]
            name = member_name(prog, f)
            if fn["kind"] == "private":
                name = "_K{}_{}{}".format(k, levels, name)
            lines.append("H.fn_class[{}] = K{}_{}; H.fn_name[{}] = {!r}".format(f, k, levels, f, name))
        lines.append("")
    return "\n".join(lines) + "\n"


def _mk_inst(rt: Runtime):  # type: ignore
    def mk(c: int) -> BaseException:
        if c not in rt.err_inst:
            e = (ErrInstF if rt.prog.get("errfalsy") else ErrInstB if rt.prog.get("errbase") else ErrInst)("inst{}".format(c))
            e.c = c  # type: ignore
            rt.err_inst[c] = e
        return rt.err_inst[c]

    return mk


def render(prog: dict, ic: Any, max_events: int = 4000) -> Runtime:
    rt = Runtime(prog, ic, max_events=max_events)
    rt.mk_inst = _mk_inst(rt)  # type: ignore
    src = gen_source(prog)
    rt.source = src
    lines = src.splitlines(True)
    linecache.cache[rt.filename] = (len(src), None, lines, rt.filename)
    ns = {"H": rt, "__name__": "icv_prog"}
    rt.namespace = ns
    try:
        exec(compile(src, rt.filename, "exec"), ns)
    except BaseException as exc:  # definition-time rejection (recorded, not raised)
        rt.define_error = exc
        return rt
    # register function keys: the library marks id() of the function wrapped by the checker
    for fi, fn in enumerate(prog["fn"], 1):
        target = None
        if fn["cls"] == 0:
            target = rt.fn_callable.get(fi)
        else:
            cls = rt.fn_class.get(fi)
            if cls is not None:
                import inspect
                raw = inspect.getattr_static(cls, rt.fn_name[fi], None)
                if isinstance(raw, (staticmethod, classmethod)):
                    raw = raw.__func__
                if isinstance(raw, property):
                    raw = {"getter": raw.fget, "setter": raw.fset, "deleter": raw.fdel}[fn["kind"]]
                target = raw
        if target is None:
            continue
        # walk to the checker and take what it wraps
        checker = ic._checkers.find_checker(target)
        if checker is not None and hasattr(checker, "__wrapped__"):
            inner = checker.__wrapped__
            rt.id2key[id(inner)] = fi
            rt.keepalive.append(inner)
    return rt


def release(rt: Runtime) -> None:
    linecache.cache.pop(rt.filename, None)
