"""Run TLC / SANY and parse what they print."""
import json
import os
import re
import shutil
import subprocess
import tempfile
import time
from typing import Any, Dict, List, Optional, Tuple

VERIF = os.path.dirname(os.path.dirname(os.path.abspath(__file__)))
SPEC = os.path.join(VERIF, "spec")
JAR = "/opt/veriftools/tla/tla2tools.jar"
DEPS = "/opt/veriftools/tla/CommunityModules-deps.jar"


class TlcError(Exception):
    """Machinery failure (not a verdict about the implementation)."""


class TlcResult:
    def __init__(self) -> None:
        self.ok = False
        self.violated = None  # type: Optional[str]   # name of violated invariant/property
        self.states = 0
        self.distinct = 0
        self.depth = 0
        self.prints = []  # type: List[Any]
        self.raw = ""
        self.wall = 0.0
        self.coverage = {}  # type: Dict[str, int]
        self.error = None  # type: Optional[str]
        self.trace = []  # type: List[str]


_RE_STATES = re.compile(r"(\d+) states generated, (\d+) distinct states found")
_RE_DEPTH = re.compile(r"The depth of the complete state graph search is (\d+)")
_RE_INV = re.compile(r"Error: Invariant (\S+) is violated")
_RE_DEADLOCK = re.compile(r"Error: Deadlock reached")
_RE_PROP = re.compile(r"Error: Action property (\S+) is violated|Error: Temporal properties were violated")
_RE_COV = re.compile(r"^<(\w+) line (\d+), col (\d+) to line (\d+), col (\d+) of module (\w+)>: (\d+):(\d+)")


def scratch_dir(prefix: str = "icv-") -> str:
    base = os.environ.get("ICV_SCRATCH") or tempfile.gettempdir()
    return tempfile.mkdtemp(prefix=prefix, dir=base)


def run_tlc(module: str, cfg: str, workdir: str, workers: int = 16, extra_modules: Optional[Dict[str, str]] = None,
            env: Optional[Dict[str, str]] = None, timeout: int = 3600, coverage: bool = False,
            depth_first: bool = False, simulate: Optional[str] = None, seed: Optional[int] = None,
            heap: str = "8g", extra_args: Optional[List[str]] = None) -> TlcResult:
    """Run TLC on spec/<module>.tla (or a generated module given in extra_modules) with config text ``cfg``.

    All specification modules are copied into ``workdir`` so that generated MC modules can EXTEND them.
    """
    os.makedirs(workdir, exist_ok=True)
    for fn in os.listdir(SPEC):
        if fn.endswith(".tla"):
            shutil.copy(os.path.join(SPEC, fn), os.path.join(workdir, fn))
    for name, text in (extra_modules or {}).items():
        with open(os.path.join(workdir, name + ".tla"), "w") as fh:
            fh.write(text)
    cfg_path = os.path.join(workdir, module + ".cfg")
    with open(cfg_path, "w") as fh:
        fh.write(cfg)
    meta = os.path.join(workdir, "meta")
    tmp = os.path.join(workdir, "tmp")
    os.makedirs(tmp, exist_ok=True)
    java_opts = ["-Xmx" + heap, "-XX:+UseParallelGC", "-Djava.io.tmpdir=" + tmp]
    if depth_first:
        java_opts.append("-Dtlc2.tool.queue.IStateQueue=StateDeque")
    cmd = ["java"] + java_opts + ["-cp", JAR + ":" + DEPS, "tlc2.TLC", "-workers", str(workers), "-metadir", meta,
                                  "-noGenerateSpecTE", "-config", module + ".cfg"]
    if coverage:
        cmd += ["-coverage", "1"]
    if simulate:
        cmd += ["-simulate", simulate]
    if seed is not None:
        cmd += ["-seed", str(seed)]
    if extra_args:
        cmd += list(extra_args)
    cmd.append(module + ".tla")
    full_env = dict(os.environ)
    full_env.pop("JAVA_TOOL_OPTIONS", None)
    if env:
        full_env.update(env)
    t0 = time.time()
    try:
        proc = subprocess.run(cmd, cwd=workdir, env=full_env, stdout=subprocess.PIPE, stderr=subprocess.STDOUT,
                              timeout=timeout)
        out = proc.stdout.decode("utf-8", "replace")
    except subprocess.TimeoutExpired as exc:
        out = (exc.stdout or b"").decode("utf-8", "replace")
        if simulate is None:
            raise TlcError("TLC timed out after {}s on {}".format(timeout, module))
    res = TlcResult()
    res.wall = time.time() - t0
    res.raw = out
    for line in out.splitlines():
        if line.startswith('"') and line.endswith('"'):
            try:
                s = json.loads(line)
                res.prints.append(json.loads(s))
            except ValueError:
                pass
            continue
        m = _RE_STATES.search(line)
        if m:
            res.states, res.distinct = int(m.group(1)), int(m.group(2))
        m = _RE_DEPTH.search(line)
        if m:
            res.depth = int(m.group(1))
        m = _RE_INV.search(line)
        if m:
            res.violated = m.group(1)
        if _RE_DEADLOCK.search(line):
            res.violated = "Deadlock (the machine is stuck before the program finished)"
        m = _RE_PROP.search(line)
        if m:
            res.violated = m.group(1) or "temporal"
        m = _RE_COV.match(line)
        if m:
            res.coverage[m.group(1)] = res.coverage.get(m.group(1), 0) + int(m.group(8))
    if "Model checking completed. No error has been found." in out or (simulate and "Error:" not in out):
        res.ok = True
    elif res.violated is None:
        # parse/semantic/evaluation error
        idx = out.find("Error:")
        res.error = out[idx:idx + 3000] if idx >= 0 else out[-3000:]
    if res.violated is not None:
        idx = out.find("Error: The behavior up to this point is:")
        res.trace = out[idx:].splitlines()[:400] if idx >= 0 else []
    return res


def sany(module_path: str) -> Tuple[bool, str]:
    cmd = ["java", "-cp", JAR + ":" + DEPS, "tla2sany.SANY", os.path.basename(module_path)]
    proc = subprocess.run(cmd, cwd=os.path.dirname(module_path), stdout=subprocess.PIPE, stderr=subprocess.STDOUT)
    out = proc.stdout.decode("utf-8", "replace")
    ok = proc.returncode == 0 and "*** Errors" not in out and "Fatal errors" not in out and "Parse Error" not in out
    return ok, out


def tla_value(x: Any) -> str:
    """Python value -> TLA+ literal (records, sequences, strings, ints, booleans; sets as frozenset)."""
    if isinstance(x, bool):
        return "TRUE" if x else "FALSE"
    if isinstance(x, int):
        return str(x)
    if isinstance(x, str):
        return json.dumps(x)
    if isinstance(x, (list, tuple)):
        return "<<" + ", ".join(tla_value(y) for y in x) + ">>"
    if isinstance(x, (set, frozenset)):
        return "{" + ", ".join(tla_value(y) for y in sorted(x)) + "}"
    if isinstance(x, dict):
        return "[" + ", ".join("{} |-> {}".format(k, tla_value(v)) for k, v in x.items()) + "]"
    raise TypeError(type(x))
