"""Name the clause a rejected trace violates and the properties that clause expresses.

Input: the diagnosis record printed by spec/ICCallTrace.tla (the event the specification expected, the event
the implementation produced, and the context: phase of the expected event, re-entrancy / concurrency context).
"""
from typing import Any, Dict, List, Set, Tuple

E, T, ID, O, A, V, CLS, OLD, RES, IP = range(10)

VIOLATION_CLS = ("Violation", "ErrClass", "ErrInst", "ErrFact")

# clause -> properties (the table of DESIGN.md, appendix C, as implemented)
CLAUSES = {
    "pre.body_entered_while_effpre_false": {"C01", "C18"},
    "pre.blocked_while_effpre_true": {"C01", "C04", "C18"},
    "pre.condition_skipped": {"C01", "C16", "C18"},
    "pre.evaluated_after_first_falsy": {"C16"},
    "pre.evaluated_after_group_satisfied": {"C16"},
    "pre.order": {"C16"},
    "post.order": {"C16"},
    "inv.order": {"C16"},
    "cond.evaluated_twice": {"C16"},
    "msg.reeval": {"C16"},
    "pre.wrong_culprit": {"C16"},
    "post.wrong_culprit": {"C16"},
    "inv.wrong_culprit": {"C16"},
    "cap.outside_window": {"C08"},
    "cap.missing": {"C08"},
    "cap.repeated": {"C08"},
    "cap.without_post": {"C08"},
    "cap.after_pre_failure": {"C08", "C01"},
    "old.not_prestate": {"C08"},
    "old.factory_not_given": {"C08", "C09"},
    "cap.before_preconditions": {"C08", "C01", "C16"},
    "msg.replaced_by_other_exception": {"C07", "C09", "C01", "C02"},
    "pre.error_replaced": {"C01", "C16"},
    "post.error_replaced": {"C02", "C16"},
    "inv.error_replaced": {"C03", "C16"},
    "post.skipped_on_return": {"C02"},
    "post.evaluated_after_body_raise": {"C02"},
    "post.result_seen": {"C02"},
    "ret.result_identity": {"C02", "C14"},
    "ret.body_not_run": {"C14", "C13", "C02"},
    "ret.exception_identity": {"C02", "C14", "C11"},
    "args.body_received": {"C14"},
    "args.contract_seen": {"C05"},
    "inv.missing_before": {"C03", "C16"},     # (C16: a phase of the check is left out)
    "inv.missing_after": {"C03", "C16"},
    "inv.missing_after_ctor": {"C03"},
    "inv.on_unfinished_object": {"C03"},
    "inv.unexpected_evaluation": {"C03", "C16"},   # (C16: a phase that was not due - e.g. after a contract had failed)
    "inv.body_after_failed_before": {"C03"},
    "inv.evaluated_after_body_raise": {"C03", "C11"},
    "err.form_dispatch": {"C09"},
    "err.factory_calls": {"C09"},
    "err.factory_seen": {"C09"},
    "err.nonexc_not_typeerror": {"C09"},
    "err.instance_identity": {"C09"},
    "ip.wrong_skip": {"C10"},
    "ip.depth_exceeded": {"C10"},
    "ip.marker_left_after_exit": {"C11", "C10"},
    "ip.marker_lost_before_exit": {"C11", "C10"},
    "ip.view_differs": {"C11", "C10"},
    "exc.dropped": {"C11"},
    "exc.swallowed_by_check": {"C11", "C16"},
    "exc.wrapped_without_cause": {"C11"},
    "exc.replaced": {"C11"},
    "ip.foreign_marker_visible": {"C12", "C10"},   # a call that is not re-entrant in its own flow went unchecked
    "verdict.depends_on_schedule": {"C12"},
    "async.diverges_from_sync": {"C13"},
    "async.not_awaited": {"C13"},
    "async.on_sync_accepted": {"C13"},
    "def.rejected": {"C19"},
    "proto.unclassified": set(),
    "proto.task": set(),
    "oracle.mismatch": set(),
}


def role_of(prog: dict, c: int) -> str:
    if 1 <= c <= len(prog["con"]):
        return prog["con"][c - 1]["role"]
    return "?"


def _is_async_owner(prog: dict, ev: list) -> bool:
    return False


def name_clause(diag: dict, prog: dict) -> str:
    exp, act = diag["exp"], diag["act"]
    ph = diag.get("ph", "")
    reent, conc = diag.get("reent", False), diag.get("conc", False)
    ee, ae = exp[E], act[E]

    def ctx(default: str) -> str:
        """A check that was skipped / added: attribute to the suspension logic when the context says so."""
        if conc:
            return "verdict.depends_on_schedule"
        if reent:
            return "ip.wrong_skip"
        return default

    if ae == "abort":
        return "ip.depth_exceeded"
    if ee == "none":
        return "proto.task"
    if exp[T] != act[T]:
        return "proto.task"
    if ae == "deferr":
        return "def.rejected"
    same_event = (ee == ae and exp[ID] == act[ID])
    if same_event:
        # only fields differ
        if exp[IP] != act[IP] and act[IP] != [-1] and all(exp[k] == act[k] for k in range(9)):
            extra = set(act[IP]) - set(exp[IP])
            missing = set(exp[IP]) - set(act[IP])
            if conc and extra:
                return "ip.foreign_marker_visible"
            if extra and not missing:
                return "ip.marker_left_after_exit"
            if missing and not extra:
                return "ip.marker_lost_before_exit"
            return "ip.view_differs"
        if ee in ("cond.out", "body.out", "cap.out", "errf.out"):
            if act[CLS] not in ("ret",) and exp[CLS] == "ret":
                # user code raised although the oracle said it returns: an exception came out of a nested call
                return ctx("oracle.mismatch")
            return "oracle.mismatch"
        if ee in ("cond.in", "errf.in", "cap.in"):
            if exp[OLD] != act[OLD]:
                return "old.not_prestate"
            if exp[RES] != act[RES]:
                return "post.result_seen"
            if exp[O] != act[O] or exp[A] != act[A]:
                return "args.contract_seen"
        if ee == "body.in":
            return "args.body_received"
        if ee == "ret":
            if exp[CLS] == "ret" and act[CLS] == "ret":
                return "ret.result_identity"
            if exp[CLS] == "ret" and act[CLS] != "ret":
                # a raise where a return was due
                if act[CLS] in VIOLATION_CLS:
                    r = role_of(prog, act[V])
                    if r == "pre":
                        return ctx("pre.blocked_while_effpre_true")
                    if r == "inv":
                        return ctx("inv.unexpected_evaluation")
                    return ctx("post.wrong_culprit")
                return "exc.replaced"
            if exp[CLS] != "ret" and act[CLS] == "ret":
                if exp[CLS] in VIOLATION_CLS:
                    r = role_of(prog, exp[V])
                    return ctx({"pre": "pre.body_entered_while_effpre_false", "post": "post.skipped_on_return",
                                "inv": "inv.missing_after"}.get(r, "exc.dropped"))
                return "exc.dropped"
            # both raise, different
            if exp[CLS] in VIOLATION_CLS or exp[CLS] in ("TypeError",):
                if exp[V] == act[V]:
                    if exp[CLS] == "ErrInst" or act[CLS] == "ErrInstCopy":
                        return "err.instance_identity"
                    return "err.form_dispatch"
                if act[CLS] in VIOLATION_CLS:
                    r = role_of(prog, exp[V])
                    return {"pre": "pre.wrong_culprit", "post": "post.wrong_culprit", "inv": "inv.wrong_culprit"}.get(
                        r, "err.form_dispatch")
                return "exc.replaced"
            if exp[CLS] in ("Exception", "KI", "GenExit", "SysExit", "Cancelled"):
                return "ret.exception_identity"
            return "exc.replaced"
        return "proto.unclassified"

    # different events ---------------------------------------------------------------------------------
    a_role = role_of(prog, act[ID]) if ae in ("cond.in", "errf.in") else ""
    e_role = role_of(prog, exp[ID]) if ee in ("cond.in", "errf.in") else ""
    if ae == "cap.in" and ee == "cond.in" and e_role == "pre":
        return "cap.before_preconditions"       # a snapshot is captured although the preconditions were not yet passed
    if ee == "cond.in":
        if ph == "reeval":
            return "msg.reeval"
        if ae == "cond.in" and a_role == e_role and ph != "reeval":
            # another condition of the same role is evaluated first
            return ctx({"pre": "pre.order", "post": "post.order", "inv": "inv.order"}.get(e_role, "pre.order"))
        if e_role == "pre":
            return ctx("pre.condition_skipped")
        if e_role == "post":
            return ctx("post.skipped_on_return")
        if e_role == "inv":
            return ctx("inv.missing_before" if ph == "before" else "inv.missing_after")
    if ee == "cap.in":
        return "cap.missing"
    if ae == "cap.in":
        if ee == "ret":
            return "cap.after_pre_failure"
        if ee == "body.in":
            return "cap.without_post"
        return "cap.outside_window"
    if ee == "errf.in":
        if exp[OLD]:
            return "old.factory_not_given"      # the error factory was to be called with the captured OLD values
        return "err.factory_calls"
    if ae == "errf.in":
        return "err.factory_calls"
    if ee == "body.in":
        if ae == "cond.in":
            if a_role == "pre":
                return ctx("pre.evaluated_after_group_satisfied")
            if a_role == "inv":
                return ctx("inv.unexpected_evaluation")
            return ctx("post.order")
        if ae == "ret":
            if act[CLS] in VIOLATION_CLS:
                r = role_of(prog, act[V])
                return ctx({"pre": "pre.blocked_while_effpre_true", "inv": "inv.body_after_failed_before"}.get(
                    r, "exc.replaced"))
            if act[CLS] == "ret":
                # the caller got a value although the body was never entered
                return "ret.body_not_run"
            return "exc.replaced"
    if ee == "ret":
        if ae == "body.in":
            if exp[CLS] in VIOLATION_CLS:
                r = role_of(prog, exp[V])
                return ctx({"pre": "pre.body_entered_while_effpre_false",
                            "inv": "inv.body_after_failed_before"}.get(r, "exc.dropped"))
            return "exc.dropped"
        if ae == "cond.in":
            if a_role == "pre":
                if exp[CLS] not in ("ret",) + VIOLATION_CLS and exp[CLS] != "TypeError":
                    # an exception raised by a condition was to reach the caller; instead further conditions are tried
                    return "exc.swallowed_by_check"
                return ctx("pre.evaluated_after_first_falsy")
            if a_role == "post":
                if exp[CLS] not in ("ret",) + VIOLATION_CLS:
                    return "post.evaluated_after_body_raise"
                return ctx("post.order")
            if a_role == "inv":
                if exp[CLS] not in ("ret",) + VIOLATION_CLS:
                    # an exception of user code was to reach the caller; instead invariants are evaluated while it unwinds
                    return "inv.evaluated_after_body_raise"
                return ctx("inv.unexpected_evaluation")
    if ee in ("susp", "res", "throw") or ae in ("susp", "res", "throw"):
        return "async.diverges_from_sync"
    if ae == "eot":
        return "exc.dropped"
    return "proto.unclassified"


def attribute(diag: dict, prog: dict, prev: Any = None) -> Tuple[str, Set[str]]:
    """prev: the recorded event before the diverging one (if known)."""
    clause = name_clause(diag, prog)
    if prev is not None and prev[E] in ("cond.out", "cap.out") and prev[V] in (2, 4) and prev[CLS] == "ret":
        # the divergence follows a condition / capture that returned a coroutine or another awaitable
        if any(f["async"] for f in prog["fn"]):
            clause = "async.not_awaited"
        else:
            clause = "async.on_sync_accepted"
    props = set(CLAUSES.get(clause, set()))
    exp_ev, act_ev = diag.get("exp") or [""], diag.get("act") or [""]
    if exp_ev[0] == "errf.in" and act_ev[0] == "errf.in" and clause in ("old.not_prestate", "post.result_seen",
                                                                         "args.contract_seen"):
        # it is an error factory that did not receive the values of the call
        props.add("C09")
    if diag.get("nested") and clause in ("pre.condition_skipped", "post.skipped_on_return", "inv.missing_before",
                                         "inv.missing_after", "pre.body_entered_while_effpre_false"):
        # a check went missing on a call made while ANOTHER callable / object was being checked: only own re-entry
        # may go unchecked
        props.add("C10")
    if props and diag.get("callee_async"):
        # the divergence happened inside the call of a coroutine function: the async twin of a wrapper is concerned
        props.add("C13")
    if props and any(f["async"] for f in prog["fn"]) and not any(
            f["async"] is False and f["kind"] not in ("init", "new", "repr", "setattr") for f in prog["fn"]):
        # only async callables are involved: whatever went wrong is (also) a sync/async discrepancy
        props.add("C13")
    return clause, props
