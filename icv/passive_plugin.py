"""pytest plugin: passively record what the UNMODIFIED icontract does while the repository's own tests run.

Uses sys.monitoring (PY_START / PY_RETURN / PY_UNWIND): the library's wrapper frames are recognised by their code
(file icontract/_checkers.py, function ``wrapper``), the contracts of the callable are read from the frame
(``wrapper.__preconditions__`` ..., ``instance.__class__.__invariants__``) and the user frames the library calls -
conditions, captures, error factories, the body - are recognised by code-object identity.  Only OUTERMOST wrapper
invocations are recorded (what happens inside nested contracted calls is left out); an invocation the recorder cannot
observe completely is marked so and skipped by the validator.
"""
import json
import os
import sys
from typing import Any, Dict, List, Optional

OUT = os.environ.get("ICV_PASSIVE_OUT")
TOOL = 5  # sys.monitoring tool id

_invocations = []  # type: List[dict]
_cur = None  # type: Optional[dict]
_wrapper_depth = 0  # wrapper frames on the stack that do not belong to the chain of the current invocation
_chain_frames = 0  # wrapper frames of the current invocation that are active
_active_user = []  # type: List[dict]
_enabled = False


def _kind_of_wrapper(code: Any) -> str:
    doc = code.co_consts[0] if code.co_consts and isinstance(code.co_consts[0], str) else ""
    if "preconditions and postconditions" in doc:
        return "chk"
    if "Wrap __init__" in doc:
        return "init"
    if "Wrap a function of a class" in doc:
        return "inv"
    if "Pass the arguments to __new__" in doc:
        return "new"
    return ""


def _is_wrapper(code: Any) -> bool:
    return code.co_name == "wrapper" and code.co_filename.replace("\\", "/").endswith("icontract/_checkers.py")


def _code_of(fn: Any) -> Any:
    import inspect
    if inspect.ismethod(fn):
        fn = fn.__func__
    return getattr(fn, "__code__", None)


def _bottom(fn: Any) -> Any:
    seen = 0
    while hasattr(fn, "__wrapped__") and seen < 50:
        fn = fn.__wrapped__
        seen += 1
    return fn


def _describe_contract(c: Any, table: dict, role: str) -> Optional[int]:
    import inspect
    code = _code_of(c.condition)
    if code is None:
        return None
    err = c.error
    if err is None:
        form = "default"
        ecode = None
    elif inspect.isfunction(err) or inspect.ismethod(err):
        form = "factory"
        ecode = _code_of(err)
    elif isinstance(err, type):
        form = "class"
        ecode = None
    else:
        form = "inst"
        ecode = None
    table["con"].append({"role": role, "err": form, "code": id(code), "ecode": id(ecode) if ecode is not None else 0,
                         "corofn": bool(inspect.iscoroutinefunction(c.condition))})
    table.setdefault("errors", []).append(err)
    table["codes"][id(code)] = table["codes"].get(id(code), []) + [("cond", len(table["con"]))]
    if ecode is not None:
        table["codes"][id(ecode)] = table["codes"].get(id(ecode), []) + [("errf", len(table["con"]))]
    table["keep"].append(code)
    return len(table["con"])


def _start_invocation(kind: str, frame: Any) -> dict:
    inv = {"chain": [], "events": [], "observable": True, "why": "", "con": [], "snp": [], "codes": {}, "keep": [],
           "pre": [], "post": [], "snap": [], "invs": [], "oncall": [], "onset": [], "body_code": 0, "is_async": False,
           "setattr": False, "outcome": None, "body_out": None, "test": os.environ.get("PYTEST_CURRENT_TEST", "")}
    return inv


def _add_wrapper(inv: dict, kind: str, frame: Any) -> None:
    import inspect
    loc = frame.f_locals
    inv["chain"].append(kind)
    try:
        if kind == "chk":
            w = loc.get("wrapper")
            func = loc.get("func")
            if w is None or func is None:
                raise ValueError("no wrapper in frame")
            for group in getattr(w, "__preconditions__"):
                ids = []
                for c in group:
                    i = _describe_contract(c, inv, "pre")
                    if i is None:
                        raise ValueError("condition without code")
                    ids.append(i)
                inv["pre"].append(ids)
            for s in getattr(w, "__postcondition_snapshots__"):
                code = _code_of(s.capture)
                if code is None:
                    raise ValueError("capture without code")
                inv["snp"].append({"code": id(code)})
                inv["codes"][id(code)] = inv["codes"].get(id(code), []) + [("cap", len(inv["snp"]))]
                inv["keep"].append(code)
                inv["snap"].append(len(inv["snp"]))
            for c in getattr(w, "__postconditions__"):
                i = _describe_contract(c, inv, "post")
                if i is None:
                    raise ValueError("condition without code")
                inv["post"].append(i)
            body = _bottom(func)
            bcode = _code_of(body)
            if bcode is None:
                raise ValueError("body without code")
            inv["body_code"] = id(bcode)
            inv["keep"].append(bcode)
            inv["is_async"] = bool(inspect.iscoroutinefunction(func))
            inv["inner_fn"] = func
        else:
            func = loc.get("func") if kind != "new" else loc.get("new_func")
            inv["inner_fn"] = func
            if kind == "inv":
                inv["setattr"] = getattr(func, "__name__", "") == "__setattr__"
                inv["is_async"] = bool(inspect.iscoroutinefunction(func))
            # the body (if no checker follows) is what the wrapper wraps
            b = _bottom(func)
            bcode = _code_of(b)
            inv["body_code"] = id(bcode) if bcode is not None else 0
            if bcode is not None:
                inv["keep"].append(bcode)
            inv["pending_inv_frame"] = frame
    except Exception as exc:  # noqa
        inv["observable"] = False
        inv["why"] = "introspection: {!r}".format(exc)


def _read_invariants(inv: dict, frame: Any) -> None:
    """Called when an inv/init/new wrapper frame ends: the instance is known by then."""
    if inv.get("invs_read"):
        return
    loc = frame.f_locals
    instance = loc.get("instance")
    if instance is None:
        return
    try:
        cls = instance.__class__
        all_ = list(getattr(cls, "__invariants__", []))
        oncall = list(getattr(cls, "__invariants_on_call__", []))
        onset = list(getattr(cls, "__invariants_on_setattr__", []))
        ids = {}
        for c in all_:
            i = _describe_contract(c, inv, "inv")
            if i is None:
                raise ValueError("invariant without code")
            ids[id(c)] = i
            inv["invs"].append(i)
        inv["oncall"] = [ids[id(c)] for c in oncall if id(c) in ids]
        inv["onset"] = [ids[id(c)] for c in onset if id(c) in ids]
        inv["invs_read"] = True
    except Exception as exc:  # noqa
        inv["observable"] = False
        inv["why"] = "invariants: {!r}".format(exc)


def _on_start(code: Any, offset: int) -> Any:
    global _cur, _wrapper_depth, _chain_frames
    if not _enabled:
        return None
    try:
        if _is_wrapper(code):
            kind = _kind_of_wrapper(code)
            frame = sys._getframe(1)
            if _cur is None:
                _cur = _start_invocation(kind, frame)
                _add_wrapper(_cur, kind, frame)
                _chain_frames = 1
                _cur["frames"] = [id(frame)]
                if kind in ("inv", "init"):
                    _cur["inv_frame_pending"] = True
            else:
                # continuation of the chain (the previous wrapper calls the checker it wraps)?
                w = frame.f_locals.get("wrapper")
                if _wrapper_depth == 0 and not _active_user and kind == "chk" and w is not None and \
                        _cur.get("inner_fn") is w and "chk" not in _cur["chain"]:
                    _add_wrapper(_cur, kind, frame)
                    _chain_frames += 1
                    _cur["frames"].append(id(frame))
                else:
                    _wrapper_depth += 1
            return None
        if _cur is None or _wrapper_depth > 0:
            return None
        if _active_user:
            return None   # a helper called by user code
        roles = _cur["codes"].get(id(code))
        if roles is None:
            if id(code) == _cur["body_code"]:
                _cur["events"].append(["body.in", 0])
                _active_user.append({"code": id(code), "what": "body", "idx": 0})
            elif not _cur.get("invs_read") and _cur["chain"] and _cur["chain"][0] in ("inv", "init", "new"):
                # an invariant condition seen before the wrapper frame ended: read the lists now
                fr = sys._getframe(2)
                depth = 0
                while fr is not None and depth < 6:
                    if _is_wrapper(fr.f_code) and "instance" in fr.f_locals:
                        _read_invariants(_cur, fr)
                        break
                    fr = fr.f_back
                    depth += 1
                roles = _cur["codes"].get(id(code))
                if roles is None:
                    return None
            else:
                return None
        if roles is not None:
            if len(set(roles)) > 1:
                what, idx = roles[0]
                # the same function object used for several contracts: which one is meant follows from the order
                _cur["events"].append(["{}.in".format(what), -len(roles), [i for _, i in roles]])
            else:
                what, idx = roles[0]
                _cur["events"].append(["{}.in".format(what), idx])
            _active_user.append({"code": id(code), "what": what, "idx": idx})
    except Exception as exc:  # noqa
        if _cur is not None:
            _cur["observable"] = False
            _cur["why"] = "recorder: {!r}".format(exc)
    return None


def _finish_user(code: Any, value: Any, raised: bool) -> None:
    u = _active_user[-1]
    if u["code"] != id(code):
        return
    _active_user.pop()
    what = u["what"]
    if what == "body":
        _cur["body_out"] = ("raise", value) if raised else ("ret", value)
        _cur["events"].append(["body.out", 0, "raise" if raised else "ret"])
    elif raised:
        _cur["events"].append([what + ".out", u["idx"], "raise"])
        _cur["user_exc"] = value
    else:
        import inspect
        if what == "cond":
            if inspect.iscoroutine(value) or inspect.isawaitable(value):
                _cur["events"].append(["cond.out", u["idx"], "awaitable"])
            else:
                try:
                    truthy = bool(value)
                    _cur["events"].append(["cond.out", u["idx"], "T" if truthy else "F"])
                except Exception:  # noqa
                    _cur["events"].append(["cond.out", u["idx"], "badbool"])
        elif what == "errf":
            _cur["events"].append(["errf.out", u["idx"], "exc" if isinstance(value, BaseException) else "nonexc"])
            _cur["errf_result"] = value
        else:
            _cur["events"].append(["cap.out", u["idx"], "ret"])


def _end_wrapper(code: Any, value: Any, raised: bool) -> None:
    global _cur, _wrapper_depth, _chain_frames
    frame = sys._getframe(2)
    if _wrapper_depth > 0 and id(frame) not in _cur.get("frames", []):
        _wrapper_depth -= 1
        return
    if id(frame) not in _cur.get("frames", []):
        return
    kind = _kind_of_wrapper(code)
    if kind in ("inv", "init", "new"):
        _read_invariants(_cur, frame)
    _chain_frames -= 1
    _cur["frames"].remove(id(frame))
    if _chain_frames == 0:
        inv = _cur
        _cur = None
        _active_user.clear()
        if raised:
            import icontract
            bo = inv.get("body_out")
            if bo is not None and bo[0] == "raise" and bo[1] is value:
                inv["outcome"] = ["raise", "body"]
            elif inv.get("user_exc") is value:
                inv["outcome"] = ["raise", "user"]
            elif inv.get("errf_result") is value:
                inv["outcome"] = ["raise", "ErrFact"]
            elif any(e is value for e in inv.get("errors", [])):
                inv["outcome"] = ["raise", "ErrInst"]
            elif any(isinstance(e, type) and type(value) is e for e in inv.get("errors", [])):
                inv["outcome"] = ["raise", "ErrClass"]
            elif type(value) is icontract.ViolationError:
                inv["outcome"] = ["raise", "Violation", str(value)[:400]]
            else:
                inv["outcome"] = ["raise", "other", type(value).__name__]
        else:
            bo = inv.get("body_out")
            same = bo is not None and bo[0] == "ret" and (bo[1] is value)
            inv["outcome"] = ["ret", "same" if same else "other"]
        inv["body_builtin"] = inv["body_code"] == 0
        rec = {k: inv[k] for k in ("chain", "events", "observable", "why", "con", "snp", "pre", "post", "snap", "invs",
                                   "oncall", "onset", "is_async", "setattr", "outcome", "test", "body_builtin")}
        _invocations.append(rec)


def _on_return(code: Any, offset: int, retval: Any) -> Any:
    if not _enabled or _cur is None:
        return None
    try:
        if _is_wrapper(code):
            _end_wrapper(code, retval, False)
        elif _wrapper_depth == 0 and _active_user:
            _finish_user(code, retval, False)
    except Exception as exc:  # noqa
        if _cur is not None:
            _cur["observable"] = False
            _cur["why"] = "recorder: {!r}".format(exc)
    return None


def _on_unwind(code: Any, offset: int, exc: Any) -> Any:
    if not _enabled or _cur is None:
        return None
    try:
        if _is_wrapper(code):
            _end_wrapper(code, exc, True)
        elif _wrapper_depth == 0 and _active_user:
            _finish_user(code, exc, True)
    except Exception as e:  # noqa
        if _cur is not None:
            _cur["observable"] = False
            _cur["why"] = "recorder: {!r}".format(e)
    return None


def pytest_sessionstart(session: Any) -> None:
    global _enabled
    if not OUT:
        return
    mon = sys.monitoring
    mon.use_tool_id(TOOL, "icv-passive")
    mon.register_callback(TOOL, mon.events.PY_START, _on_start)
    mon.register_callback(TOOL, mon.events.PY_RETURN, _on_return)
    mon.register_callback(TOOL, mon.events.PY_UNWIND, _on_unwind)
    mon.set_events(TOOL, mon.events.PY_START | mon.events.PY_RETURN | mon.events.PY_UNWIND)
    _enabled = True


def pytest_runtest_setup(item: Any) -> None:
    global _cur, _wrapper_depth, _chain_frames
    # never carry an open invocation from one test into the next
    _cur = None
    _wrapper_depth = 0
    _chain_frames = 0
    _active_user.clear()


def pytest_sessionfinish(session: Any, exitstatus: Any) -> None:
    global _enabled
    if not OUT:
        return
    _enabled = False
    try:
        sys.monitoring.set_events(TOOL, 0)
        sys.monitoring.free_tool_id(TOOL)
    except Exception:  # noqa
        pass
    with open(OUT, "w") as fh:
        json.dump(_invocations, fh)
