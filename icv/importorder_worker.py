"""Worker: a fresh interpreter in which icontract is imported BEFORE asyncio (and before anything that imports it),
then programs are run on real asyncio tasks along given schedules.  usage: importorder_worker.py <jobs.json>"""
import json
import os
import sys

repo = os.environ["ICV_REPO_PATH"]
sys.path.insert(0, repo)
if "asyncio" in sys.modules:
    sys.stderr.write("asyncio was imported before the worker started\n")
    sys.exit(3)
import icontract  # noqa: E402  (first: this is the point of the worker)

if "asyncio" in sys.modules:
    sys.stderr.write("importing icontract imports asyncio: the import order cannot be varied\n")
    sys.exit(4)
sys.path.insert(0, os.path.dirname(os.path.dirname(os.path.abspath(__file__))))
from icv import callcheck as C  # noqa: E402  (imports asyncio)


def main() -> None:
    jobs = json.load(open(sys.argv[1]))
    ic = C.load_icontract()
    if ic is not icontract:
        sys.stderr.write("two copies of icontract\n")
        sys.exit(5)
    out = []
    for job in jobs:
        act, _ = C.run_impl(job["prog"], ic, schedule=job["schedule"], mode="async")
        out.append(act)
    json.dump(out, sys.stdout)


if __name__ == "__main__":
    main()
