"""ICBind pipeline (C05): every <<signature, call>> state of spec/ICBind.tla is replayed on the implementation."""
import inspect
import json
import os
import shutil
from typing import Any, Dict, List, Tuple

from icv import tlc
from icv.result import CheckResult, MachineryError


class S:
    __slots__ = ("tag",)

    def __init__(self, tag: str) -> None:
        self.tag = tag

    def __repr__(self) -> str:
        return "<" + self.tag + ">"


class StrictDefault(S):
    """A default value whose == / != do not return a bool (element-wise like a numpy array): the library must find out
    whether a parameter has a default without comparing the default with anything."""

    def __eq__(self, other: Any) -> Any:
        raise ValueError("the truth value of a comparison with {!r} is ambiguous".format(self))

    def __ne__(self, other: Any) -> Any:
        raise ValueError("the truth value of a comparison with {!r} is ambiguous".format(self))

    __hash__ = None  # type: ignore


def bind_cfg(max_params: int, max_pos: int, sw_index_all: bool, sw_kw_over: bool, emit: bool) -> str:
    lines = ["SPECIFICATION BSpec", "CONSTANTS", "  MaxParams = {}".format(max_params), "  MaxPos = {}".format(max_pos),
             "  SwIndexAll = {}".format("TRUE" if sw_index_all else "FALSE"),
             "  SwKwOverridesPosOnly = {}".format("TRUE" if sw_kw_over else "FALSE"),
             "INVARIANT BindAgree"]
    if emit:
        lines.append("INVARIANT PrintVector")
    lines.append("CHECK_DEADLOCK FALSE")
    return "\n".join(lines) + "\n"


def model_check_bind(max_params: int, max_pos: int, sw_index_all: bool = False, sw_kw_over: bool = False,
                     emit: bool = True) -> Tuple[tlc.TlcResult, List[dict]]:
    wd = tlc.scratch_dir("icv-bind-")
    try:
        res = tlc.run_tlc("MC_Bind", bind_cfg(max_params, max_pos, sw_index_all, sw_kw_over, emit), wd, workers=16)
        return res, [p for p in res.prints if isinstance(p, dict) and "sig" in p]
    finally:
        shutil.rmtree(wd, ignore_errors=True)


def sig_source(sig: List[dict], body: str, isasync: bool = False) -> str:
    parts = []
    seen_slash = False
    kinds = [p["kind"] for p in sig]
    npo = sum(1 for k in kinds if k == "po")
    star_needed = "ko" in kinds and "va" not in kinds
    for i, p in enumerate(sig, 1):
        name = "p{}".format(i)
        if p["kind"] == "ko" and star_needed:
            parts.append("*")
            star_needed = False
        if p["kind"] == "va":
            parts.append("*" + name)
        elif p["kind"] == "vk":
            parts.append("**" + name)
        elif p["dflt"]:
            parts.append("{}=D[{}]".format(name, i))
        else:
            parts.append(name)
        if p["kind"] == "po" and i == npo:
            parts.append("/")
    return "{}def f({}):\n    {}\n".format("async " if isasync else "", ", ".join(parts), body)


_SHARED = {}  # type: Dict[int, Any]
_UNSET = object()


def shared_require(ic: Any) -> Any:
    """ONE precondition decorator object applied to the functions of ALL signatures (its condition takes every parameter
    name with a default): what it receives for a call is a matter of that call's function only."""
    if id(ic) not in _SHARED:
        sink = {"h": None}  # type: Dict[str, Any]

        def shared_cond(p1: Any = _UNSET, p2: Any = _UNSET, p3: Any = _UNSET, p4: Any = _UNSET, p5: Any = _UNSET,
                        p6: Any = _UNSET, p7: Any = _UNSET) -> bool:
            for i, v in enumerate((p1, p2, p3, p4, p5, p6, p7), 1):
                if v is not _UNSET:
                    sink["h"].seen[("shared", i)] = v
            return True

        _SHARED[id(ic)] = (ic.require(shared_cond), sink)
    return _SHARED[id(ic)]


class SigHarness:
    """One decorated function per signature; every contract role records what it receives."""

    def __init__(self, sig: List[dict], ic: Any) -> None:
        self.sig = sig
        self.ic = ic
        self.seen = {}  # type: Dict[Tuple[str, Any], Any]
        self.body_locals = None  # type: Any
        self.D = {i: StrictDefault("D{}".format(i)) for i in range(1, len(sig) + 1)}
        named = [i for i, p in enumerate(sig, 1) if p["kind"] in ("po", "pk", "ko")]
        self.named = named
        ns = {"D": self.D, "H": self}
        body = "H.body_locals = dict(locals()); return H.RESULT"
        exec(sig_source(sig, body), ns)  # noqa
        f_plain = ns["f"]
        self.RESULT = S("R")
        self.ERR = None  # type: Any

        def rec(role: str, key: Any, value: Any) -> bool:
            self.seen[(role, key)] = value
            return True

        self.rec = rec
        # f1: everything holds; one precondition, capture and postcondition per named parameter + _ARGS/_KWARGS
        f1 = f_plain
        for i in named:
            f1 = ic.ensure(eval("lambda p{0}, result, OLD: H.rec('post', {0}, p{0}) and H.rec('old', {0}, getattr(OLD, 's{0}'))".format(i), ns))(f1)
        if named:
            for i in named:
                f1 = ic.snapshot(eval("lambda p{0}: (H.rec('cap', {0}, p{0}), p{0})[1]".format(i), ns), name="s{}".format(i))(f1)
        for i in named:
            f1 = ic.require(eval("lambda p{0}: H.rec('pre', {0}, p{0})".format(i), ns))(f1)
        # ... and through parameters that carry a DEFAULT (condition and capture): the value of the call wins
        self.NOTSET = S("NOTSET")
        ns["NOTSET"] = self.NOTSET
        if named:
            for i in named:
                f1 = ic.snapshot(eval("lambda p{0}=NOTSET: (H.rec('capdef', {0}, p{0}), p{0})[1]".format(i), ns),
                                 name="d{}".format(i))(f1)
        for i in named:
            f1 = ic.require(eval("lambda p{0}=NOTSET: H.rec('predef', {0}, p{0})".format(i), ns))(f1)
        # the same parameters asked for through KEYWORD-ONLY parameters of the condition
        for i in named:
            f1 = ic.require(eval("lambda *, p{0}: H.rec('prekw', {0}, p{0})".format(i), ns))(f1)
        shared_deco, self._shared_sink = shared_require(ic)
        f1 = shared_deco(f1)
        f1 = ic.require(lambda _ARGS: rec("pre", "_ARGS", _ARGS))(f1)
        f1 = ic.require(lambda _KWARGS: rec("pre", "_KWARGS", _KWARGS))(f1)
        self.f1 = f1
        # f2: a violated precondition whose error factory asks for every named parameter
        ns2 = {"D": self.D, "H": self}
        exec(sig_source(sig, body), ns2)  # noqa
        args = ", ".join("p{}".format(i) for i in named)
        recs = " and ".join("H.rec('errf', {0}, p{0})".format(i) for i in named) or "True"
        ns2["ERRCLS"] = type("BindErr", (Exception,), {})
        errf = eval("lambda {}: ({}, ERRCLS('e'))[1]".format(args, recs), ns2)
        self.f2 = ic.require(lambda: False, error=errf)(ns2["f"])
        self.errcls = ns2["ERRCLS"]
        # f4 / f5: a violated POSTCONDITION (sync function / coroutine function) whose error factory asks for every
        # named parameter although the condition names only the result
        self.post_errf = []
        for isasync in (False, True):
            ns4 = {"D": self.D, "H": self, "ERRCLS": ns2["ERRCLS"]}
            exec(sig_source(sig, body, isasync), ns4)  # noqa
            # (the error factory also asks for OLD, which the condition does not name: the snapshots are captured all the same)
            recs_old = " and ".join("H.rec('errf_old', {0}, getattr(OLD, 's{0}'))".format(i) for i in named) or "True"
            # (without a snapshot there is no OLD to ask for)
            errf4 = eval("lambda {}: ({} and {}, ERRCLS('e'))[1]".format(
                ", ".join((["OLD"] if named else []) + ["p{}".format(i) for i in named]), recs, recs_old), ns4)
            f4 = ic.ensure(lambda result: False, error=errf4)(ns4["f"])
            for i in named:
                f4 = ic.snapshot(eval("lambda p{0}: p{0}".format(i), ns4), name="s{}".format(i))(f4)
            self.post_errf.append(f4)
        # f6: the contracts decorate a BOUND METHOD (self is bound already and is not a parameter any more)
        ns6 = {"D": self.D, "H": self}
        src6 = sig_source(sig, body).replace("def f(", "def f(self, ", 1)
        exec("class Holder:\n" + "".join("    " + l + "\n" for l in src6.splitlines()), ns6)  # noqa
        self.holder = ns6["Holder"]()
        f6 = self.holder.f
        for i in named:
            f6 = ic.require(eval("lambda p{0}: H.rec('prebm', {0}, p{0})".format(i), ns6))(f6)
        self.f6 = f6
        # f7: the coroutine-function twin of the preconditions of f1 (the async wrapper resolves the call on its own)
        ns7 = {"D": self.D, "H": self}
        exec(sig_source(sig, body, True), ns7)  # noqa
        f7 = ns7["f"]
        for i in named:
            f7 = ic.require(eval("lambda p{0}: H.rec('pre_async', {0}, p{0})".format(i), ns7))(f7)
        self.f7 = f7
        # f3: a condition asks for a name the function does not have
        ns3 = {"D": self.D, "H": self}
        exec(sig_source(sig, body), ns3)  # noqa
        self.f3 = ic.require(lambda q_absent: True)(ns3["f"])

    def call(self, f: Any, npos: int, kws: List[int]) -> Tuple[Any, Any, Any]:
        self.seen = {}
        self.body_locals = None
        self._shared_sink["h"] = self
        pos = tuple(S("P{}".format(j)) for j in range(1, npos + 1))
        kw = {("p{}".format(k) if k else "zz"): S("K{}".format(k)) for k in kws}
        try:
            out = f(*pos, **kw)
            if inspect.iscoroutine(out):
                try:
                    out.send(None)
                    out.close()
                    raise MachineryError("a coroutine of the binding harness suspended")
                except StopIteration as stop:
                    out = stop.value
            exc = None
        except BaseException as e:  # noqa
            out, exc = None, e
        return pos, kw, (out, exc)


def replay_vectors(res: CheckResult, vectors: List[dict], ic: Any, only_roles: Any = None) -> Dict[str, int]:
    """only_roles: report only what concerns these contract roles (e.g. the preconditions, for C01)."""
    if only_roles is not None:
        real = res.violation

        def filtered(clause: str, what: str, replay: dict) -> None:
            role = replay.get("role")
            if clause in ("args.call_rejected", "args.decoration_failed") or role in only_roles:
                real(clause, what, replay)

        res = _Filtered(res, filtered)
    return _replay_vectors(res, vectors, ic)


class _Filtered:
    """A CheckResult whose violation() is filtered (everything else is passed through)."""

    def __init__(self, res: Any, violation: Any) -> None:
        self.__dict__["_res"] = res
        self.__dict__["violation"] = violation

    def __getattr__(self, name: str) -> Any:
        return getattr(self._res, name)

    def __setattr__(self, name: str, value: Any) -> None:
        setattr(self._res, name, value)


def _replay_vectors(res: Any, vectors: List[dict], ic: Any) -> Dict[str, int]:
    by_sig = {}  # type: Dict[str, List[dict]]
    for v in vectors:
        by_sig.setdefault(json.dumps(v["sig"]), []).append(v)
    stats = {"signatures": len(by_sig), "calls": 0, "bindable": 0, "values_compared": 0}
    for key, vs in by_sig.items():
        sig = json.loads(key)
        try:
            h = SigHarness(sig, ic)
        except Exception as exc:  # noqa
            res.violation("args.decoration_failed",
                          "signature {}: decorating the function failed with {!r} (the defaults are objects whose == / != "
                          "do not return a bool)".format(sig_source(sig, "...").split(chr(10))[0], exc),
                          {"signature": "args.decoration_failed", "sig": sig})
            if len(res.violations) > 20:
                return stats
            continue
        for v in vs:
            npos, kws = v["npos"], sorted(v["kws"])
            stats["calls"] += 1
            pos, kw, (out, exc) = h.call(h.f1, npos, kws)
            bl = h.body_locals
            seen = dict(h.seen)
            # the specification's BindOK must agree with CPython (else the specification is wrong: machinery)
            cpy_ok = bl is not None or not isinstance(exc, TypeError)
            if v["ok"] != (bl is not None):
                if v["ok"] and exc is not None and bl is None:
                    # Python accepts the call (says the spec) but the wrapped call failed before the body
                    res.violation("args.call_rejected",
                                  "signature {} call npos={} kws={}: bindable call failed with {!r}".format(
                                      sig_source(sig, "...").split(chr(10))[0], npos, kws, exc),
                                  {"signature": "args.call_rejected", "sig": sig, "npos": npos, "kws": kws})
                    continue
                if not v["ok"] and bl is not None:
                    raise MachineryError("spec says the call is not bindable but CPython bound it: {} {} {}".format(
                        sig, npos, kws))
            if not v["ok"]:
                continue
            stats["bindable"] += 1
            head = sig_source(sig, "...").split("\n")[0]
            for i in h.named:
                tagk, idx = v["vals"][i - 1]
                want = pos[idx - 1] if tagk == "P" else (kw["p{}".format(idx)] if tagk == "K" else h.D[idx])
                got_body = bl["p{}".format(i)]
                if got_body is not want:
                    raise MachineryError("spec Bind disagrees with CPython for {} npos={} kws={} param {}".format(
                        head, npos, kws, i))
                for role in ("pre", "prekw", "predef", "shared", "cap", "capdef", "post", "old"):
                    stats["values_compared"] += 1
                    got = seen.get((role, i), "<not evaluated>")
                    if got is not want:
                        res.violation("args.contract_seen",
                                      "{} called with {} positionals and keywords {}: the {} for parameter p{} saw {!r} "
                                      "but the body received {!r}".format(head, npos, kws, role, i, got, got_body),
                                      {"signature": "args.contract_seen", "sig": sig, "npos": npos, "kws": kws,
                                       "param": i, "role": role, "seen": repr(got), "body": repr(got_body)})
            if seen.get(("pre", "_ARGS")) != pos or seen.get(("pre", "_KWARGS")) != kw:
                res.violation("args.contract_seen", "{}: _ARGS/_KWARGS seen {} {} for call {} {}".format(
                    head, seen.get(("pre", "_ARGS")), seen.get(("pre", "_KWARGS")), pos, kw),
                    {"signature": "args.contract_seen", "sig": sig, "npos": npos, "kws": kws, "param": "_ARGS"})
            if out is not h.RESULT:
                res.violation("args.call_rejected", "{} npos={} kws={}: result {!r} exc {!r}".format(head, npos, kws, out, exc),
                              {"signature": "args.call_rejected", "sig": sig, "npos": npos, "kws": kws})
            # the coroutine-function twin: its preconditions see what the body received as well
            pos7, kw7, (out7, exc7) = h.call(h.f7, npos, kws)
            for i in h.named:
                tagk, idx = v["vals"][i - 1]
                want = pos7[idx - 1] if tagk == "P" else (kw7["p{}".format(idx)] if tagk == "K" else h.D[idx])
                stats["values_compared"] += 1
                if h.seen.get(("pre_async", i), "<not evaluated>") is not want:
                    res.violation("args.contract_seen",
                                  "async {} called with {} positionals and keywords {}: the precondition for parameter p{} "
                                  "saw {!r}".format(head, npos, kws, i, h.seen.get(("pre_async", i), "<not evaluated>")),
                                  {"signature": "args.contract_seen", "sig": sig, "npos": npos, "kws": kws, "param": i,
                                   "role": "pre_async"})
            # error factory
            pos2, kw2, (out2, exc2) = h.call(h.f2, npos, kws)
            if not isinstance(exc2, h.errcls):
                res.violation("args.contract_seen", "{} npos={} kws={}: error factory: {!r}".format(head, npos, kws, exc2),
                              {"signature": "args.contract_seen", "sig": sig, "npos": npos, "kws": kws, "role": "errf"})
            else:
                for i in h.named:
                    tagk, idx = v["vals"][i - 1]
                    want = pos2[idx - 1] if tagk == "P" else (kw2["p{}".format(idx)] if tagk == "K" else h.D[idx])
                    stats["values_compared"] += 1
                    if h.seen.get(("errf", i)) is not want:
                        res.violation("args.contract_seen",
                                      "{} npos={} kws={}: error factory saw {!r} for p{}".format(
                                          head, npos, kws, h.seen.get(("errf", i)), i),
                                      {"signature": "args.contract_seen", "sig": sig, "npos": npos, "kws": kws,
                                       "param": i, "role": "errf"})
            for which, fpost in zip(("a function", "a coroutine function"), h.post_errf):
                pos4, kw4, (out4, exc4) = h.call(fpost, npos, kws)
                if not isinstance(exc4, h.errcls):
                    res.violation("args.contract_seen", "{} npos={} kws={}: error factory of a postcondition of {}: {!r}".format(
                        head, npos, kws, which, exc4),
                        {"signature": "args.contract_seen", "sig": sig, "npos": npos, "kws": kws, "role": "errf-post"})
                    continue
                for i in h.named:
                    tagk, idx = v["vals"][i - 1]
                    want = pos4[idx - 1] if tagk == "P" else (kw4["p{}".format(idx)] if tagk == "K" else h.D[idx])
                    stats["values_compared"] += 1
                    if h.seen.get(("errf_old", i)) is not want:
                        res.violation("args.contract_seen",
                                      "{} npos={} kws={}: the error factory of a postcondition of {} saw OLD.s{} = {!r}".format(
                                          head, npos, kws, which, i, h.seen.get(("errf_old", i))),
                                      {"signature": "args.contract_seen", "sig": sig, "npos": npos, "kws": kws,
                                       "param": i, "role": "errf-post-old"})
                    if h.seen.get(("errf", i)) is not want:
                        res.violation("args.contract_seen",
                                      "{} npos={} kws={}: the error factory of a postcondition of {} saw {!r} for p{}".format(
                                          head, npos, kws, which, h.seen.get(("errf", i)), i),
                                      {"signature": "args.contract_seen", "sig": sig, "npos": npos, "kws": kws,
                                       "param": i, "role": "errf-post"})
            # contracts on a bound method
            pos6, kw6, (out6, exc6) = h.call(h.f6, npos, kws)
            if exc6 is not None or out6 is not h.RESULT:
                res.violation("args.call_rejected", "{} as a bound method, npos={} kws={}: result {!r} exc {!r}".format(
                    head, npos, kws, out6, exc6), {"signature": "args.call_rejected", "sig": sig, "npos": npos, "kws": kws,
                                                   "role": "bound-method"})
            else:
                for i in h.named:
                    tagk, idx = v["vals"][i - 1]
                    want = pos6[idx - 1] if tagk == "P" else (kw6["p{}".format(idx)] if tagk == "K" else h.D[idx])
                    stats["values_compared"] += 1
                    if h.seen.get(("prebm", i)) is not want:
                        res.violation("args.contract_seen",
                                      "{} decorated as a bound method, npos={} kws={}: the precondition saw {!r} for p{} but "
                                      "the body received {!r}".format(head, npos, kws, h.seen.get(("prebm", i)), i, want),
                                      {"signature": "args.contract_seen", "sig": sig, "npos": npos, "kws": kws,
                                       "param": i, "role": "bound-method"})
            # a requested name the call does not provide: TypeError naming it, the body does not run
            _, _, (out3, exc3) = h.call(h.f3, npos, kws)
            if not (isinstance(exc3, TypeError) and "q_absent" in str(exc3)) or h.body_locals is not None:
                res.violation("args.missing_name_not_typeerror",
                              "{} npos={} kws={}: condition asking for an absent name: {!r}".format(head, npos, kws, exc3),
                              {"signature": "args.missing_name_not_typeerror", "sig": sig, "npos": npos, "kws": kws})
            if len(res.violations) > 50:
                return stats
    return stats
