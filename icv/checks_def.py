"""Checks decided with the definition-time machine (spec/ICDefine.tla)."""
import inspect
import itertools
import random
from typing import Any, Dict, List, Optional, Set

from icv import defcheck as D
from icv import def_families as DF
from icv.result import CheckResult, MachineryError, load_known

DEF_CLAUSES = {
    "def.eff_pre_ne_ref": {"C04", "C18"},
    "def.eff_post_ne_ref": {"C04", "C18"},
    "def.eff_snap_ne_ref": {"C04", "C08", "C18"},
    "def.eff_inv_ne_ref": {"C04", "C18"},
    "def.member_kind": {"C14", "C03"},
    "def.resolution": {"C14", "C04", "C18"},
    "def.other_entity_changed": {"C17"},
    "def.shared_mutable_list": {"C17"},
    "def.misuse_accepted": {"C19", "C08"},
    "def.misuse_wrong_class": {"C19"},
    "def.rejected_wrongly": {"C04", "C14"},
    "def.wrap_missing": {"C03", "C04", "C18"},  # an instance must satisfy the invariants of its class and ancestors
    "def.wrap_forbidden": {"C03"},
    "def.second_checker": {"C14"},
    "def.wrapped_chain": {"C14"},
    "def.registered_count": {"C18"},
    "def.verdict_ne_lists": {"C18", "C04", "C01", "C02", "C08"},
    "def.verdict_ne_reference": {"C01", "C02", "C03", "C04", "C08", "C16"},
    "def.culprit_order": {"C16"},
    "def.view": {"C18"},
    "proto.no_expected_step": set(),
}


def current_def_switches() -> Dict[str, bool]:
    sw = dict(D.DEF_ALL_OFF)
    for k in load_known():
        if k.get("status") == "known" and k.get("dswitch"):
            sw[k["dswitch"]] = True
    return sw


def hand_eval(view_member: dict, inv_oncall: List[int], truth: Dict[int, bool]) -> Any:
    """Judge a call by evaluating the introspected lists by hand, the way integrators do.

    Returns ("ok",) or ("violation", contract ordinal)."""
    for c in inv_oncall:
        if not truth.get(c, True):
            return ("violation", c)
    pre = view_member["pre"]
    if pre:
        culprit = None
        sat = False
        for group in pre:
            culprit = None
            for c in group:
                if not truth.get(c, True):
                    culprit = c
                    break
            if culprit is None:
                sat = True
                break
        if not sat:
            return ("violation", culprit)
    for c in view_member["post"]:
        if not truth.get(c, True):
            return ("violation", c)
    for c in inv_oncall:
        if not truth.get(c, True):
            return ("violation", c)
    return ("ok",)


ROLE_PROPS = {"pre": {"C01", "C04"}, "post": {"C02", "C04"}, "inv": {"C03", "C04"}, "snap": {"C08", "C04"}}


def verdicts_unit(res: CheckResult, hist: dict, expected: Dict[int, dict], ic: Any, rng: random.Random,
                  max_assign: int = 64, lists_from: str = "impl") -> int:
    """HandEvalAgrees: verdict from the introspected lists (read from the implementation through the documented
    interface; on a conforming history they are the specification's lists) vs verdict of the real call."""
    rt = D.DefRuntime(hist, ic)
    n = 0
    last = 0
    for k in range(1, len(hist["cls"]) + 1):
        if rt.run_step(k) != "ok":
            break
        last = k
    nst = len(hist["cls"])
    if last == nst:
        # post-hoc decorations of members of the classes created above
        for i, ph in enumerate(hist.get("posthoc", []), 1):
            if rt.run_posthoc(ph) != "ok":
                break
            last = nst + i
    if last == 0 or last not in expected:
        return 0
    exp = expected[last]
    for j in range(1, min(last, nst) + 1):
        # lists_from = "model": the REFERENCE lists of the specification judge the call (used where the lists of the
        # implementation are not the expected ones: is the effective contract still what the property says?)
        view = rt.view(j) if lists_from == "impl" else D.normalise_model_view(exp["views"][j - 1], hist["names"])
        cls = rt.classes[j]
        stj = hist["cls"][j - 1]
        if not stj["dbc"] and not stj["invs"] and stj["bases"]:
            # a plain, undecorated subclass of a class with invariants: which of its members check the inherited
            # invariants is left undefined by the documentation (inheritance needs DBC)
            continue
        if getattr(cls, "__abstractmethods__", None):
            continue    # an abstract class: it has no instances (its subclasses are judged)
        for name, mv in view["members"].items():
            if mv["kind"] not in ("fn", "prop", "pset", "static", "cls"):
                continue
            cons = sorted(set(c for g in mv["pre"] for c in g) | set(mv["post"]) | set(view["inv"]))
            if not cons:
                continue
            # contracts which are NOT listed for this member must not influence the verdict either: invariants of
            # other classes of the history vary too
            # (so do all the other contracts of the history: e.g. one added to another class after the fact)
            cons = sorted(set(cons) | {i for i, c in enumerate(hist["con"], 1) if c["role"] in ("inv", "pre", "post")})
            assigns = list(itertools.product([True, False], repeat=len(cons)))
            if len(assigns) > max_assign:
                assigns = rng.sample(assigns, max_assign)
            wrapped = mv["kind"] in ("fn", "prop", "pset")   # public instance members are subject to the invariants
            for bits in assigns:
                rt.truth = {c: True for c in range(1, len(hist["con"]) + 1)}
                try:
                    inst = cls()
                except Exception as exc:  # noqa
                    raise MachineryError("cannot instantiate class of history {}: {!r}".format(hist["hid"], exc))
                rt.truth.update(dict(zip(cons, bits)))
                want = hand_eval(mv, view["doc_oncall"] if wrapped else [], rt.truth)
                rt.evaluated = []
                try:
                    if mv["kind"] == "prop":
                        getattr(inst, name)
                    elif mv["kind"] == "pset":
                        setattr(inst, name[:-3], 1)
                    elif mv["kind"] in ("static", "cls"):
                        getattr(cls, name)()
                    else:
                        out = getattr(inst, name)()
                        if inspect.iscoroutine(out):
                            # an `async def` member (hist["async_members"]): drive it to completion
                            try:
                                out.send(None)
                            except StopIteration:
                                pass
                            else:
                                out.close()
                                raise MachineryError("an async member suspended")
                    got = ("ok",)  # type: Any
                except ic.ViolationError as exc:
                    import re
                    m = re.search(r"cond_(\d+)", str(exc))
                    got = ("violation", int(m.group(1)) if m else -1)
                except Exception as exc:  # noqa
                    got = ("exception", type(exc).__name__)
                n += 1
                if got != want and lists_from == "model":
                    roles = {hist["con"][v[1] - 1]["role"] for v in (want, got)
                             if v[0] == "violation" and 1 <= v[1] <= len(hist["con"])}
                    props = set().union(*[ROLE_PROPS.get(r, set()) for r in roles]) if roles else {"C04"}
                    if want[0] == "violation" and got[0] == "violation":
                        props.add("C16")     # another contract than the first falsy one (in the reference order) is blamed
                    if got[0] == "exception":
                        # the call failed with an error of the library (e.g. a missing OLD): every kind of contract
                        # the member carries is concerned
                        props |= {"C04"} | ({"C08"} if mv["snap"] else set()) | ({"C02"} if mv["post"] else set()) | (
                            {"C01"} if mv["pre"] else set())
                    what = "history {} class {} member {}: the effective contracts of the specification say {} but " \
                           "the call gives {} under {}".format(hist["hid"], j, name, want, got, rt.truth)
                    if res.prop in props:
                        res.violation("def.verdict_ne_reference", what,
                                      {"signature": "def.verdict_ne_reference", "history": hist, "class": j,
                                       "member": name, "truth": {str(c): v for c, v in rt.truth.items()},
                                       "reference_lists": mv, "want": want, "got": got})
                    else:
                        res.note("nonconformance outside {} (clause=def.verdict_ne_reference -> {})".format(
                            res.prop, ",".join(sorted(props))))
                    return n
                if got != want and want[0] == "violation" and got[0] == "violation" and res.prop == "C16":
                    res.violation("def.culprit_order",
                                  "history {} class {} member {}: the first falsy contract of the lists is {} but the call "
                                  "blames {} under {}".format(hist["hid"], j, name, want[1], got[1], rt.truth),
                                  {"signature": "def.culprit_order", "history": hist, "class": j, "member": name})
                    return n
                if got != want:
                    res.violation("def.verdict_ne_lists",
                                  "history {} class {} member {}: lists say {} but the call gives {} under {}".format(
                                      hist["hid"], j, name, want, got, rt.truth),
                                  {"signature": "def.verdict_ne_lists", "history": hist, "class": j, "member": name,
                                   "truth": {str(c): v for c, v in rt.truth.items()}, "lists": mv, "want": want,
                                   "got": got})
                    return n
    return n


def def_unit(res: CheckResult, name: str, hists: List[dict], ic: Any, verdicts: bool = False,
             rng: Optional[random.Random] = None) -> None:
    rng = rng or random.Random(res.seed)
    hists = DF.number(hists)
    cur = current_def_switches()
    r_off, exp_off = D.model_check_def(hists, D.DEF_ALL_OFF, emit=(cur == D.DEF_ALL_OFF))
    if not r_off.ok:
        raise MachineryError("unit {}: the switch-off specification fails its own obligation {} / {}".format(
            name, r_off.violated, (r_off.error or "")[:1500]))
    res.states += r_off.distinct
    res.transitions += r_off.states
    exp = exp_off
    if cur != D.DEF_ALL_OFF:
        r_cur, exp = D.model_check_def(hists, cur, invariants=[], properties=[], emit=True)
        if not r_cur.ok:
            raise MachineryError("unit {}: as-is model: {}".format(name, r_cur.error or r_cur.violated))
        res.states += r_cur.distinct
        res.transitions += r_cur.states
        r_chk, _ = D.model_check_def(hists, cur, emit=False)
        if r_chk.violated:
            for k in load_known():
                if k.get("status") == "known" and k.get("dswitch") and (
                        k.get("property") == res.prop or res.prop in k.get("also", [])):
                    res.known(k["signature"], "{} [model-level counterexample: obligation {} fails with {}=TRUE on "
                                              "family {}]".format(k["what"], r_chk.violated, k["dswitch"], name))
    nrun = 0
    ndiv = 0
    nverd = 0
    for h in hists:
        if h["hid"] not in exp:
            raise MachineryError("unit {}: history {} has no expected views".format(name, h["hid"]))
        divs = D.replay_history(h, exp[h["hid"]], ic)
        nrun += 1
        if divs:
            ndiv += 1
            d0 = divs[0]
            props = DEF_CLAUSES.get(d0["clause"])
            if props is None or not props:
                raise MachineryError("unclassified definition-time divergence {}: {}".format(d0["clause"], d0))
            what = "family {}: history {} step {}: {} (expected {}, implementation {})".format(
                name, h["hid"], d0["step"], d0["clause"], str(d0.get("exp"))[:300], str(d0.get("act"))[:300])
            if res.prop in props:
                res.violation(d0["clause"], what, {"signature": d0["clause"], "unit": name, "history": h,
                                                   "divergence": d0})
            else:
                res.note("nonconformance outside {} (clause={} -> {}) in unit {}".format(
                    res.prop, d0["clause"], ",".join(sorted(props)), name))
                if verdicts and res.prop == "C18" and not d0["clause"].startswith("proto."):
                    # C18's own oracle does not need the specification's lists: what the implementation lists must
                    # explain what the implementation does, also where the lists are not the ones expected
                    nverd += verdicts_unit(res, h, exp[h["hid"]], ic, rng)
                elif verdicts and not d0["clause"].startswith("proto.") and d0["clause"] != "def.rejected_wrongly":
                    # the lists are not the expected ones: do the calls still obey the effective contracts of the
                    # specification?  (C01 / C02 / C03 / C04 speak of verdicts, not of lists)
                    nverd += verdicts_unit(res, h, exp[h["hid"]], ic, rng, lists_from="model")
        elif verdicts:
            nverd += verdicts_unit(res, h, exp[h["hid"]], ic, rng)
        if len(res.samples) < 3 and nrun % 211 == 1:
            res.samples.append({"unit": name, "history": h})
    res.traces += nrun
    res.evaluations += nrun + nverd
    res.add_unit(name, histories=len(hists), states=r_off.distinct, replayed=nrun, divergent=ndiv,
                 call_verdicts_vs_lists=nverd)
