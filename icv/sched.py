"""Schedulers: run a rendered program along a schedule.

* single task: the driver script runs in the calling thread; coroutines are driven by hand (``send``/``throw``).
* several tasks, thread-like: every task is a thread running in its own ``contextvars.Context`` (fresh, or a copy
  of the spawning task's context); a baton makes exactly one task run at a time and a task gives the baton back
  right after it has emitted an event (a turn is ``silent* ; event`` as in the specification).
* several tasks, asyncio-like: every task is a coroutine driven by hand in its own context; a task runs until it
  suspends or finishes.
"""
import asyncio
import contextvars
import os
import sys
import threading
from typing import Any, Callable, Dict, List, Optional

from icv.harness import Runtime, HarnessAbort, Susp, FAULT_CLASSES


class CancelledByPlan(asyncio.CancelledError):
    pass


def _throwable(rt: Runtime, kind: str) -> BaseException:
    if kind == "Cancelled":
        exc = asyncio.CancelledError()  # type: BaseException
    elif kind == "GenExit":
        exc = GeneratorExit()
    else:
        exc = FAULT_CLASSES[kind]("thrown")
    rt.faults[0] = exc
    return exc


class SingleSched:
    """One task, no concurrency."""

    def __init__(self, rt: Runtime) -> None:
        self.rt = rt
        rt.sched = self

    def spawn(self, t: int, copy_ctx: bool) -> None:
        raise RuntimeError("spawn in a single-task run")

    def suspension(self) -> Any:
        return Susp()

    def run_coro_inline(self, coro: Any) -> Any:
        rt = self.rt
        fault = rt.prog["fault"]
        to_throw = None  # type: Optional[BaseException]
        while True:
            try:
                if to_throw is not None:
                    exc, to_throw = to_throw, None
                    if rt.prog.get("foreign_resume"):
                        # the suspended coroutine is closed / interrupted from ANOTHER flow of control (a fresh
                        # context, as an executor thread or a loop callback would have); what the user code sees of the
                        # in-progress view during that segment is the other flow's and is not compared
                        rt.tls.foreign = True
                        try:
                            y = contextvars.Context().run(coro.throw, exc)
                        finally:
                            rt.tls.foreign = False
                    else:
                        y = coro.throw(exc)
                else:
                    y = coro.send(None)
            except StopIteration as stop:
                return stop.value
            assert isinstance(y, Susp), "unexpected awaitable {!r}".format(y)
            rt.ns += 1
            if fault["at"] == -1 and fault["n"] == rt.ns:
                kind = fault["kind"]
                rt.emit("throw", 0, 0, 0, 0, kind)
                to_throw = _throwable(rt, kind)
            else:
                rt.emit("res", 0)

    def run(self) -> None:
        rt = self.rt
        rt.tls.t = 1
        try:
            rt.run_script(list(rt.prog["drv"][0]), "drv")
            rt.emit("end", 1, 0, 0, 0, "ret")
        except HarnessAbort:
            rt.log.append({"e": "abort", "t": 1, "id": 0, "o": 0, "a": 0, "v": 0, "cls": "", "old": [], "res": 0,
                           "ip": "n/a"})
        except RecursionError:
            rt.log.append({"e": "abort", "t": 1, "id": 0, "o": 0, "a": 0, "v": 0, "cls": "RecursionError",
                           "old": [], "res": 0, "ip": "n/a"})


class ThreadSched:
    """Thread-like tasks with a baton; the schedule is a sequence of task ids (who emits the next event)."""

    def __init__(self, rt: Runtime, choose: Callable[[List[int], int], int]) -> None:
        self.rt = rt
        rt.sched = self
        self.choose = choose
        self.cv = threading.Condition()
        self.turn = 0  # task allowed to run; 0 = scheduler
        self.threads = {}  # type: Dict[int, threading.Thread]
        self.state = {}  # type: Dict[int, str]   # parked | running | done
        self.abort = False
        self.errors = []  # type: List[BaseException]
        rt.on_emit = self._after_emit

    # called in task threads ------------------------------------------------
    def _after_emit(self, ev: dict) -> None:
        t = ev["t"]
        if t not in self.threads:
            return
        with self.cv:
            self.state[t] = "parked"
            self.turn = 0
            self.cv.notify_all()
            while self.turn != t and not self.abort:
                self.cv.wait()
            if self.abort:
                raise HarnessAbort("aborted")
            self.state[t] = "running"

    def spawn(self, t: int, copy_ctx: bool) -> None:
        ctx = contextvars.copy_context() if copy_ctx else contextvars.Context()
        th = threading.Thread(target=self._task_main, args=(t, ctx), daemon=True)
        self.threads[t] = th
        self.state[t] = "parked"
        th.start()

    def _task_main(self, t: int, ctx: contextvars.Context) -> None:
        rt = self.rt
        with self.cv:
            while self.turn != t and not self.abort:
                self.cv.wait()
            if self.abort:
                self.state[t] = "done"
                self.cv.notify_all()
                return
            self.state[t] = "running"

        def body() -> None:
            if t == 1 and rt.prog.get("parent_is_task") and not getattr(rt.tls, "in_task", False):
                # task 1 is an asyncio TASK (of a loop of its own): the workers it spawns are loop-less threads running
                # in copies of a task's context, as asyncio.to_thread / run_in_executor + Context.run make them
                rt.tls.in_task = True

                async def main() -> None:
                    body()

                asyncio.run(main())
                return
            rt.tls.t = t
            try:
                rt.run_script(list(rt.prog["drv"][t - 1]), "drv")
                # the final event must not park (the thread ends)
                rt.on_emit = None
                try:
                    rt.emit("end", t, 0, 0, 0, "ret")
                finally:
                    rt.on_emit = self._after_emit
            except HarnessAbort:
                pass
            except BaseException as exc:  # noqa
                self.errors.append(exc)

        ctx.run(body)
        with self.cv:
            self.state[t] = "done"
            self.turn = 0
            self.cv.notify_all()

    def suspension(self) -> Any:
        return Susp()

    def run_coro_inline(self, coro: Any) -> Any:
        # thread-like tasks may call async callables: drive them to completion, each suspension is an event
        rt = self.rt
        while True:
            try:
                y = coro.send(None)
            except StopIteration as stop:
                return stop.value
            rt.emit("res", 0)

    # scheduler --------------------------------------------------------------
    def run(self) -> None:
        self.spawn(1, copy_ctx=False)
        step = 0
        while True:
            with self.cv:
                while self.turn != 0:
                    if not self.cv.wait(timeout=20):
                        self.abort = True
                        self.cv.notify_all()
                        raise RuntimeError("scheduler timeout (deadlock in harness?)")
                ready = sorted(t for t, s in self.state.items() if s == "parked")
                if not ready:
                    break
                t = self.choose(ready, step)
                if t not in ready:
                    # the schedule asks for a task that cannot run: stop the replay here
                    self.abort = True
                    self.cv.notify_all()
                    break
                step += 1
                self.turn = t
                self.cv.notify_all()
        for th in self.threads.values():
            th.join(timeout=10)
        if self.errors:
            raise self.errors[0]


class PreemptSched(ThreadSched):
    """Thread-like tasks that are also preempted *inside library code*: every task thread traces the lines executed
    in the icontract package and, with probability q at each of them, hands the baton back to the scheduler.  The
    specification's turn (silent library steps up to the next crossing) is thereby split at arbitrary lines; the
    recorded log must still be a behaviour of the specification (the library keeps no state shared between flows, so
    the split turns commute) -- a shared structure updated by check-then-act would show up as a rejected trace."""

    def __init__(self, rt: Runtime, choose: Callable[[List[int], int], int], prng: Any, q: float = 0.15) -> None:
        super().__init__(rt, choose)
        self.prng = prng
        self.q = q
        self.libdir = os.path.dirname(os.path.abspath(rt.ic.__file__)) + os.sep
        self.preemptions = 0

    def _global_trace(self, frame: Any, event: str, arg: Any) -> Any:
        if frame.f_code.co_filename.startswith(self.libdir):
            return self._local_trace
        return None

    def _local_trace(self, frame: Any, event: str, arg: Any) -> Any:
        if event == "line" and not getattr(self.rt.tls, "observing", False) and self.prng.random() < self.q:
            t = getattr(self.rt.tls, "t", 0)
            if t in self.threads and self.state.get(t) == "running":
                self.preemptions += 1
                with self.cv:
                    self.state[t] = "parked"
                    self.turn = 0
                    self.cv.notify_all()
                    while self.turn != t and not self.abort:
                        self.cv.wait()
                    if self.abort:
                        raise HarnessAbort("aborted")
                    self.state[t] = "running"
        return self._local_trace

    def _task_main(self, t: int, ctx: contextvars.Context) -> None:
        sys.settrace(self._global_trace)
        try:
            super()._task_main(t, ctx)
        finally:
            sys.settrace(None)


class AsyncSched:
    """asyncio-like tasks: coroutines driven by hand, each in its own context; switch only at suspension."""

    def __init__(self, rt: Runtime, choose: Callable[[List[int], int], int]) -> None:
        self.rt = rt
        rt.sched = self
        self.choose = choose
        self.coros = {}  # type: Dict[int, Any]
        self.ctxs = {}  # type: Dict[int, contextvars.Context]
        self.state = {}  # type: Dict[int, str]  # new | susp | done
        self.cur = 0
        self.throw_next = {}  # type: Dict[int, BaseException]

    def spawn(self, t: int, copy_ctx: bool) -> None:
        # asyncio.create_task copies the current context
        ctx = contextvars.copy_context() if copy_ctx else contextvars.Context()
        self.ctxs[t] = ctx
        self.coros[t] = self._task_main(t)
        self.state[t] = "new"

    async def _task_main(self, t: int) -> None:
        rt = self.rt
        rt.tls.t = t
        await rt.run_script_async(list(rt.prog["drv"][t - 1]), "drv")
        rt.emit("end", t, 0, 0, 0, "ret")

    def suspension(self) -> Any:
        return Susp()

    def run_coro_inline(self, coro: Any) -> Any:
        raise RuntimeError("sync code calling an async callable inside an asyncio-like task")

    def _advance(self, t: int) -> None:
        rt = self.rt
        coro = self.coros[t]
        rt.tls.t = t
        try:
            if t in self.throw_next:
                exc = self.throw_next.pop(t)
                y = self.ctxs[t].run(coro.throw, exc)
            else:
                y = self.ctxs[t].run(coro.send, None)
        except StopIteration:
            self.state[t] = "done"
            return
        except BaseException:  # cancellation reaching the top of the task
            self.state[t] = "done"
            return
        assert isinstance(y, Susp)
        self.state[t] = "susp"
        rt.ns += 1
        fault = rt.prog["fault"]
        if fault["at"] == -1 and fault["n"] == rt.ns:
            self.state[t] = "susp!"

    def run(self) -> None:
        rt = self.rt
        self.spawn(1, copy_ctx=False)
        step = 0
        try:
            while True:
                ready = sorted(t for t, s in self.state.items() if s in ("new", "susp", "susp!"))
                if not ready:
                    break
                t = self.choose(ready, step)
                if t not in ready:
                    break
                step += 1
                if self.state[t] == "susp":
                    rt.tls.t = t
                    rt.emit("res", 0)
                elif self.state[t] == "susp!":
                    kind = rt.prog["fault"]["kind"]
                    rt.tls.t = t
                    rt.emit("throw", 0, 0, 0, 0, kind)
                    self.throw_next[t] = _throwable(rt, kind)
                self._advance(t)
        except HarnessAbort:
            pass
        finally:
            for t, coro in self.coros.items():
                if self.state.get(t) != "done":
                    try:
                        coro.close()
                    except BaseException:  # noqa
                        pass


class RealAsyncSched:
    """Real asyncio tasks on a real event loop, scheduled deterministically.

    Every task parks on a future whenever the program says "await"; the scheduler (a task of its own that never
    runs contracted code) resolves the future of the task chosen by the schedule and waits until that task parks
    again or finishes, so exactly one task runs at a time and the switch points are the suspension points.
    """

    def __init__(self, rt: Runtime, choose: Callable[[List[int], int], int]) -> None:
        self.rt = rt
        rt.sched = self
        self.choose = choose
        self.loop = None  # type: Any
        self.tasks = {}  # type: Dict[int, Any]
        self.state = {}  # type: Dict[int, str]
        self.go = {}  # type: Dict[int, Any]
        self.parked = None  # type: Any
        self.running = 0

    def spawn(self, t: int, copy_ctx: bool) -> None:
        ctx = contextvars.copy_context() if copy_ctx else contextvars.Context()
        self.state[t] = "new"
        self.go[t] = self.loop.create_future()
        # (every task of the program carries the same name, as the workers of a crawler would: names do not identify flows)
        self.tasks[t] = self.loop.create_task(self._task_main(t), context=ctx, name="worker")

    def _signal_parked(self) -> None:
        if self.parked is not None and not self.parked.done():
            self.parked.set_result(None)

    async def _task_main(self, t: int) -> None:
        rt = self.rt
        try:
            await self.go[t]
            rt.tls.t = t
            await rt.run_script_async(list(rt.prog["drv"][t - 1]), "drv")
            rt.emit("end", t, 0, 0, 0, "ret")
        except HarnessAbort:
            pass
        except asyncio.CancelledError:
            pass
        finally:
            self.state[t] = "done"
            self._signal_parked()

    def suspension(self) -> Any:
        return self._park(self.rt.task())

    async def _park(self, t: int) -> None:
        rt = self.rt
        rt.ns += 1
        fault = rt.prog["fault"]
        self.state[t] = "susp!" if (fault["at"] == -1 and fault["n"] == rt.ns) else "susp"
        self.go[t] = self.loop.create_future()
        self._signal_parked()
        try:
            await self.go[t]
        finally:
            rt.tls.t = t

    def run_coro_inline(self, coro: Any) -> Any:
        raise RuntimeError("sync code calling an async callable inside an asyncio task")

    async def _main(self, main_sync: bool = False) -> None:
        rt = self.rt
        self.loop = asyncio.get_running_loop()
        step = 0
        if not main_sync:
            self.spawn(1, copy_ctx=False)
        else:
            step = 1
        while True:
            ready = sorted(t for t, s in self.state.items() if s in ("new", "susp", "susp!"))
            if not ready:
                break
            t = self.choose(ready, step)
            if t not in ready:
                break
            step += 1
            self.parked = self.loop.create_future()
            rt.tls.t = t
            if self.state[t] == "susp":
                rt.emit("res", 0)
                self.go[t].set_result(None)
            elif self.state[t] == "susp!":
                rt.emit("throw", 0, 0, 0, 0, "Cancelled")
                self.tasks[t].cancel()
            else:
                self.go[t].set_result(None)
            self.state[t] = "running"
            await self.parked
        for t, task in self.tasks.items():
            if not task.done():
                task.cancel()
        await asyncio.sleep(0)

    def _run_main_sync(self) -> None:
        """prog["main_sync"]: task 1 is not an asyncio task but the synchronous main program of the thread: it runs
        contracted code and creates the tasks before the event loop is started, so the tasks inherit (a copy of) the
        context in which synchronous contracted code has already run."""
        rt = self.rt
        self.loop = asyncio.new_event_loop()
        try:
            if self.choose([1], 0) != 1:
                return
            rt.tls.t = 1
            self.state[1] = "running"
            try:
                rt.run_script(list(rt.prog["drv"][0]), "drv")
                rt.emit("end", 1, 0, 0, 0, "ret")
            finally:
                self.state[1] = "done"
            self.loop.run_until_complete(self._main(main_sync=True))
        finally:
            self.loop.close()

    def run(self) -> None:
        try:
            if self.rt.prog.get("main_sync"):
                contextvars.Context().run(self._run_main_sync)
            else:
                asyncio.run(self._main())
        except HarnessAbort:
            pass
