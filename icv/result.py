"""Check results, evidence files, known findings, exit codes."""
import hashlib
import json
import os
import time
from typing import Any, Dict, List, Optional

VERIF = os.path.dirname(os.path.dirname(os.path.abspath(__file__)))
EVIDENCE_DIR = os.path.join(VERIF, "evidence")
REPLAY_DIR = os.path.join(VERIF, "replays")
KNOWN_FILE = os.path.join(VERIF, "known_findings.json")


class MachineryError(Exception):
    """The check itself is broken (specification, harness, tool): exit 2, never a VIOLATION."""


def load_known() -> List[dict]:
    if not os.path.exists(KNOWN_FILE):
        return []
    with open(KNOWN_FILE) as fh:
        return json.load(fh)["findings"]


class CheckResult:
    def __init__(self, prop: str, tier: str, seed: int) -> None:
        self.prop = prop
        self.tier = tier
        self.seed = seed
        self.t0 = time.time()
        self.states = 0
        self.transitions = 0
        self.traces = 0
        self.evaluations = 0
        self.samples = []  # type: List[Any]
        self.violations = []  # type: List[dict]
        self.known_hits = []  # type: List[dict]
        self.notes = []  # type: List[str]
        self.assumptions = []  # type: List[str]
        self.coverage_extra = {}  # type: Dict[str, Any]
        self.units = []  # type: List[dict]

    def add_unit(self, name: str, **kw: Any) -> None:
        d = {"unit": name}
        d.update(kw)
        self.units.append(d)

    def note(self, msg: str) -> None:
        if msg not in self.notes:
            self.notes.append(msg)

    def violation(self, clause: str, what: str, replay: dict) -> None:
        """Record a violation of this property unless a known finding covers exactly this signature."""
        sig = replay.get("signature", clause)
        for k in load_known():
            if k.get("status") == "known" and k.get("property") == self.prop and k.get("signature") == sig:
                if not any(h["signature"] == sig for h in self.known_hits):
                    self.known_hits.append({"signature": sig, "what": k.get("what", what)})
                return
        self.violations.append({"clause": clause, "what": what, "replay": replay})

    def known(self, signature: str, what: str) -> None:
        if not any(h["signature"] == signature for h in self.known_hits):
            self.known_hits.append({"signature": signature, "what": what})

    def finish(self) -> int:
        os.makedirs(EVIDENCE_DIR, exist_ok=True)
        wall = time.time() - self.t0
        replay_paths = []
        replay_dir = REPLAY_DIR if not os.environ.get("ICV_NO_REPLAY") else os.path.join(
            os.environ.get("TMPDIR", "/tmp"), "icv-replays-scratch")
        for v in self.violations[:20]:
            os.makedirs(os.path.join(replay_dir, self.prop), exist_ok=True)
            blob = json.dumps(v["replay"], sort_keys=True, default=str)
            h = hashlib.sha1(blob.encode()).hexdigest()[:12]
            path = os.path.join(replay_dir, self.prop, h + ".json")
            with open(path, "w") as fh:
                json.dump({"property": self.prop, "clause": v["clause"], "what": v["what"], "replay": v["replay"]},
                          fh, indent=1, default=str)
            replay_paths.append(path)
        coverage = {
            "states": int(self.states),
            "transitions": int(self.transitions),
            "traces_validated_against_impl": int(self.traces),
            "samples": self.samples[:6] if self.samples else ["(no sample recorded)"],
            "evaluations": int(self.evaluations),
            "units": self.units,
            "known_findings_reproduced": self.known_hits,
            "notes": self.notes[:40],
        }
        coverage.update(self.coverage_extra)
        ev = {
            "property_id": self.prop,
            "tier": self.tier,
            "seed": int(self.seed),
            "level": "model_checking",
            "coverage": coverage,
            "assumptions": self.assumptions,
            "wall_s": round(wall, 2),
            "violations": len(self.violations),
        }
        if not os.environ.get("ICV_NO_EVIDENCE"):
            with open(os.path.join(EVIDENCE_DIR, self.prop + ".json"), "w") as fh:
                json.dump(ev, fh, indent=1, default=str)
        for h in self.known_hits:
            print("KNOWN-FINDING: property={} {}".format(self.prop, h["what"]))
        for n in self.notes[:15]:
            print("note: " + n)
        if self.violations:
            for v, path in zip(self.violations[:20], replay_paths):
                print("VIOLATION property={} replay={}".format(self.prop, path))
                print("  clause={} {}".format(v["clause"], v["what"]))
            return 1
        print("OK property={} tier={} states={} transitions={} traces={} wall={:.1f}s".format(
            self.prop, self.tier, self.states, self.transitions, self.traces, wall))
        return 0
