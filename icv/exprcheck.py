"""ICExpr pipeline (C06, C07, C20): expressions x environments -> TLC (what Python evaluates, what the message must
show, what the re-evaluator may touch) -> the same condition as a real lambda in a real decorator, violated."""
import itertools
import json
import linecache
import os
import random
import re
import shutil
from typing import Any, Dict, Iterator, List, Optional, Tuple

from icv import tlc
from icv.result import CheckResult, MachineryError

LEAVES = [("int", -1), ("int", 0), ("int", 1), ("int", 2), ("none", 0), ("true", 0), ("false", 0), ("name", 1), ("name", 2),
          ("name", 3), ("name", 4)]
# names: 1 = x, 2 = y (arguments), 3 = c (closure variable of the enclosing function), 4 = g (module global).
# The generated module ALSO has globals called x, y and c with other values: arguments shadow the closure, the
# closure shadows the globals (Python's rule; the re-evaluator must look names up in the same order).
C_VALUE = ("int", 5, [])
G_VALUE = ("list", 0, [7])
UNARY = ["not", "neg", "ident", "len", "first", "attr", "isnone", "all_gt", "all_pos", "sum_star", "comp", "typeof"]
NONE_ELEM = -9   # a list element that is None
BINARY = ["add", "floordiv", "and", "or", "lt", "eq", "in", "star_then", "pairlen"]
NEST_BINARY = ["all_nest"]   # only in its own family: its operands are names (they are written twice in the source)
TERNARY = ["ifexp", "lt2", "and3", "or3"]
ARITY = {k: 0 for k in ("int", "none", "true", "false", "name")}
ARITY.update({k: 1 for k in UNARY})
ARITY["all_nest"] = 2
ARITY["fstr"] = 1     # f"{<c>}": only in its own family (its value is a string; the operators are not defined on those)
ARITY.update({k: 2 for k in BINARY})
ARITY.update({k: 3 for k in TERNARY})

X_VALUES = [("int", -1, []), ("int", 0, []), ("int", 2, []), ("none", 0, []), ("list", 0, []), ("list", 0, [1]),
            ("list", 0, [0, 2]), ("obj", 3, []), ("bool", 1, []), ("list", 0, [3, NONE_ELEM, 20, -1]),
            ("list", 0, [2, 1, 30]), ("amb", 0, [])]
Y_VALUES = [("int", 0, []), ("int", 3, []), ("none", 0, []), ("list", 0, [2]), ("obj", 0, []), ("amb", 0, [])]


def V(t: str, n: int = 0, s: Optional[list] = None) -> dict:
    return {"t": t, "n": n, "s": list(s or [])}


def leaf(k: str, a: int) -> list:
    return [{"k": k, "a": a}]


def trees(depth: int) -> Iterator[list]:
    """All prefix-encoded expressions up to the given depth."""
    if depth == 0:
        for k, a in LEAVES:
            yield leaf(k, a)
        return
    subs = list(trees(depth - 1))
    for t in subs:
        yield t
    for k in UNARY:
        for a in subs:
            yield [{"k": k, "a": 0}] + a
    for k in BINARY:
        for a in subs:
            for b in subs:
                yield [{"k": k, "a": 0}] + a + b
    for k in TERNARY:
        for a in subs:
            for b in subs:
                for c in subs:
                    yield [{"k": k, "a": 0}] + a + b + c


class AllFail:
    """Expected rendering of a failed all(<generator>): the first falsifying element."""

    def __init__(self, e: Any) -> None:
        self.e = e

    def __repr__(self) -> str:
        return "False, e.g., with\n  e = {!r}".format(self.e)


class AllFailNest:
    """Expected rendering of a failed all(<generator>) with nested loop targets i, (e, d)."""

    def __init__(self, i: int, e: Any, d: Any) -> None:
        self.i, self.e, self.d = i, e, d

    def __repr__(self) -> str:
        return "False, e.g., with\n  i = {!r}\n  e = {!r}\n  d = {!r}".format(self.i, self.e, self.d)


class Obj:
    def __init__(self, n: int) -> None:
        self.v = n

    def __repr__(self) -> str:
        return "Obj({})".format(self.v)

    def __format__(self, spec: str) -> str:
        # formats unlike str() (as a quantity that prints its unit by default)
        return "{} units".format(self.v)

    def __eq__(self, other: Any) -> bool:
        # a strict value object: comparison with a foreign type is an error (as numpy-like / typed values do)
        if not isinstance(other, Obj):
            raise TypeError("Obj compared with {}".format(type(other).__name__))
        return self.v == other.v

    def __hash__(self) -> int:
        return hash(("Obj", self.v))

    def __lt__(self, other: Any) -> int:
        # answers with 0 / 1 (falsy / truthy, but not the singletons False / True), strictly among its own kind
        if not isinstance(other, Obj):
            raise TypeError("Obj ordered against {}".format(type(other).__name__))
        return 1 if self.v < other.v else 0


class Amb:
    """An object whose truth value is ambiguous (bool() raises), as a numpy array with several elements."""

    def __bool__(self) -> bool:
        raise TypeError("the truth value of an Amb is ambiguous")

    def __repr__(self) -> str:
        return "Amb()"


def py_value(v: dict, objs: Dict[int, Obj]) -> Any:
    t = v["t"]
    if t == "int":
        return v["n"]
    if t == "bool":
        return bool(v["n"])
    if t == "none":
        return None
    if t == "list":
        return [None if e == NONE_ELEM else e for e in v["s"]]
    if t == "allfail" and v["s"]:
        kinds = {1: "int", 2: "bool", 3: "none", 4: "list", 5: "obj", 6: "cls", 7: "amb", 8: "fmt"}
        i, ce, cd, dn = v["s"][:4]
        return AllFailNest(i, py_value({"t": kinds[ce], "n": v["n"], "s": []}, objs),
                           py_value({"t": kinds[cd], "n": dn, "s": list(v["s"][4:])}, objs))
    if t == "allfail":
        return AllFail(None if v["n"] == NONE_ELEM else v["n"])
    if t == "obj":
        return objs.setdefault(v["n"], Obj(v["n"]))
    if t == "cls":
        return {1: int, 2: bool, 3: type(None), 4: list, 5: Obj, 6: type, 7: Amb}[v["n"]]
    if t == "amb":
        return objs.setdefault(-77, Amb())  # type: ignore
    if t == "fmt":
        src_t = {1: "int", 2: "bool", 3: "none", 4: "list", 5: "obj", 6: "cls", 7: "amb"}[v["s"][0]]
        return format(py_value({"t": src_t, "n": v["n"], "s": list(v["s"][1:])}, objs), "")
    raise ValueError(t)


def tla_value_of(x: Any) -> list:
    if isinstance(x, bool):
        return ["bool", 1 if x else 0, []]
    if isinstance(x, int):
        return ["int", x, []]
    if x is None:
        return ["none", 0, []]
    if isinstance(x, list):
        return ["list", 0, [NONE_ELEM if e is None else e for e in x]]
    if isinstance(x, Obj):
        return ["obj", x.v, []]
    if isinstance(x, type):
        return ["cls", {int: 1, bool: 2, type(None): 3, list: 4, Obj: 5, type: 6, Amb: 7}.get(x, 0), []]
    if isinstance(x, Amb):
        return ["amb", 0, []]
    if isinstance(x, str):
        return ["str", 0, [x]]       # (compared through py_value of the specification's "fmt" value, see _same_value)
    return ["?", 0, []]


def _same_value(spec_v: Any, x: Any) -> bool:
    """Does the specification's value [t, n, s] denote the Python value x?"""
    if list(spec_v)[0] == "fmt":
        t, n, ss = spec_v
        return isinstance(x, str) and py_value({"t": t, "n": n, "s": list(ss)}, {}) == x
    return list(spec_v) == tla_value_of(x)


def parse(expr: list, p: int = 0) -> Tuple[dict, int]:
    """prefix sequence -> tree {k, a, pos (1-based), kids}"""
    nd = expr[p]
    node = {"k": nd["k"], "a": nd["a"], "pos": p + 1, "kids": []}
    q = p + 1
    for _ in range(ARITY[nd["k"]]):
        kid, q = parse(expr, q)
        node["kids"].append(kid)
    return node, q


ATOMIC = ("int", "none", "true", "false", "name", "ident", "len", "first", "attr", "all_gt", "all_pos", "sum_star", "comp", "typeof",
          "star_then", "pairlen", "fstr", "all_nest")


def render(node: dict, rec: bool = False) -> str:
    """Source text of a node; with rec=True every node is wrapped in a recorder call R(pos, <expr>)."""
    k = node["k"]
    kids = node["kids"]

    def sub(i: int, need_atomic: bool = True) -> str:
        s = render(kids[i], rec)
        if rec:
            return s
        if need_atomic and kids[i]["k"] not in ATOMIC:
            return "(" + s + ")"
        if kids[i]["k"] == "int" and need_atomic and (kids[i]["a"] < 0 or k in ("attr", "first")):
            return "(" + s + ")"
        return s

    if k == "int":
        s = str(node["a"])
    elif k == "none":
        s = "None"
    elif k == "true":
        s = "True"
    elif k == "false":
        s = "False"
    elif k == "name":
        s = {1: "x", 2: "y", 3: "c", 4: "g", 5: "id"}[node["a"]]
    elif k == "not":
        s = "not " + sub(0)
    elif k == "neg":
        s = "-" + sub(0)
    elif k == "ident":
        s = "ident(" + sub(0, False) + ")"
    elif k == "len":
        s = "len(" + sub(0, False) + ")"
    elif k == "all_nest":
        s = "all(e > 0 for i, (e, d) in [(0, ({0}, {1})), (1, ({1}, {0}))])".format(sub(0), sub(1))
    elif k == "fstr":
        s = 'f"{' + sub(0) + '}"'
    elif k == "all_gt":
        s = "all(e > 0 for e in " + sub(0) + ")"
    elif k == "all_pos":
        s = "all(10 // e > 0 for e in " + sub(0) + " if e is not None if e > 0)"
    elif k == "sum_star":
        s = "digits(*" + sub(0) + ")"           # a starred argument of an order-sensitive function
    elif k == "comp":
        if rec:
            # (a recorder lambda inside the iterable would capture the comprehension's own x under PEP 709)
            s = "(lambda _it: [x for x in _it])(" + sub(0) + ")"
        else:
            s = "[x for x in " + sub(0) + "]"   # the loop variable shadows the argument x
    elif k == "typeof":
        s = "type(" + sub(0, False) + ")"        # a call whose result is a class (must be listed like any call)
    elif k == "first":
        s = sub(0) + "[0]"
    elif k == "attr":
        s = sub(0) + ".v"
    elif k == "isnone":
        s = sub(0) + " is None"
    elif k == "star_then":
        s = "digits(*{}, {})".format(sub(0), sub(1, False))      # a plain positional argument after a starred one
    elif k == "pairlen":
        s = "len([{}, {}])".format(sub(0, False), sub(1, False))  # a list display whose elements are never compared
    elif k in ("add", "floordiv", "and", "or", "lt", "eq", "in"):
        op = {"add": "+", "floordiv": "//", "and": "and", "or": "or", "lt": "<", "eq": "==", "in": "in"}[k]
        s = "{} {} {}".format(sub(0), op, sub(1))
    elif k == "ifexp":
        s = "{} if {} else {}".format(sub(1), sub(0), sub(2))
    elif k == "lt2":
        s = "{} < {} < {}".format(sub(0), sub(1), sub(2))
    elif k in ("and3", "or3"):
        op = " and " if k == "and3" else " or "
        s = op.join(sub(i) for i in range(3))
    else:
        raise ValueError(k)
    if rec:
        return "R({}, lambda: {})".format(node["pos"], s)
    return s


def texts(node: dict, out: Dict[int, str]) -> None:
    out[node["pos"]] = render(node)
    for kid in node["kids"]:
        texts(kid, out)


def expr_cfg(sw_eager: bool, sw_or: bool, invariants: List[str], sw_allfail: bool = False, sw_nostar: bool = False,
             sw_compleak: bool = False, sw_lasttruth: bool = False, sw_fstr: bool = False) -> str:
    lines = ["SPECIFICATION ESpec", "CONSTANTS", "  CaseSpace <- MCCaseSpace",
             "  SwEagerBool = {}".format("TRUE" if sw_eager else "FALSE"),
             "  SwOrSeedTrue = {}".format("TRUE" if sw_or else "FALSE"),
             "  SwAllFailLeaks = {}".format("TRUE" if sw_allfail else "FALSE"),
             "  SwNoStarred = {}".format("TRUE" if sw_nostar else "FALSE"),
             "  SwCompTargetLeaks = {}".format("TRUE" if sw_compleak else "FALSE"),
             "  SwLastOperandTruth = {}".format("TRUE" if sw_lasttruth else "FALSE"),
             "  SwFStringOpaque = {}".format("TRUE" if sw_fstr else "FALSE")]
    for inv in invariants:
        lines.append("INVARIANT " + inv)
    lines.append("CHECK_DEADLOCK FALSE")
    return "\n".join(lines) + "\n"


EXPR_INVARIANTS = ["RecomputeWithinEvaluated", "ViolationSurfaces", "ShownSound", "ShownComplete", "AllCounterexample",
                   "AllNestCounterexample"]


def model_check_expr(cases: List[dict], sw_eager: bool = False, sw_or: bool = False,
                     invariants: Optional[List[str]] = None, emit: bool = True, sw_allfail: bool = False,
                     sw_nostar: bool = False, sw_compleak: bool = False,
                     sw_fstr: bool = False) -> Tuple[tlc.TlcResult, Dict[int, dict], Dict[int, dict]]:
    wd = tlc.scratch_dir("icv-expr-")
    try:
        cfile = os.path.join(wd, "cases.ndjson")
        with open(cfile, "w") as fh:
            for c in cases:
                fh.write(json.dumps(c) + "\n")
        invs = list(EXPR_INVARIANTS if invariants is None else invariants)
        if emit:
            invs += ["PrintCase", "PrintPy"]
        res = tlc.run_tlc("MC_Expr", expr_cfg(sw_eager, sw_or, invs, sw_allfail, sw_nostar, sw_compleak, sw_fstr=sw_fstr), wd, workers=16, env={"CASES": cfile})
        viol, py = {}, {}
        for pr in res.prints:
            if isinstance(pr, dict) and "cid" in pr:
                if "py" in pr:
                    py[pr["cid"]] = pr
                else:
                    viol[pr["cid"]] = pr
        return res, viol, py
    finally:
        shutil.rmtree(wd, ignore_errors=True)


def make_cases(exprs: List[list], rng: random.Random, envs_per_expr: int = 0) -> List[dict]:
    cases = []
    envs = [(x, y) for x in X_VALUES for y in Y_VALUES]
    for e in exprs:
        uses = {nd["a"] for nd in e if nd["k"] == "name"}
        xs = X_VALUES if 1 in uses else X_VALUES[:1]
        ys = Y_VALUES if 2 in uses else Y_VALUES[:1]
        es = [(x, y) for x in xs for y in ys]
        if envs_per_expr and len(es) > envs_per_expr:
            es = rng.sample(es, envs_per_expr)
        for x, y in es:
            cases.append({"cid": len(cases) + 1, "expr": e, "env": [V(*x), V(*y), V(*C_VALUE), V(*G_VALUE), V("none", 0, [])]})
    return cases


_SERIAL = itertools.count(1)


_ENTER = object()     # marker in the recorder's log (compared by identity: values may have a strict __eq__)


def _digits(*values: Any) -> Any:
    acc = 0
    for v in values:
        acc = acc * 10 + v
    return acc


class ExprModule:
    """A generated module with one contracted function per distinct expression."""

    ROLES = {"require": ("require", ""), "ensure": ("ensure", ""), "require_async": ("require", "async "),
             "ensure_async": ("ensure", "async ")}

    def __init__(self, exprs: Dict[str, list], ic: Any, role: str = "require", fresh: bool = False) -> None:
        self.ic = ic
        self.role = role
        deco, prefix = self.ROLES[role]
        # every module of a process is "the same file, edited and loaded again": other conditions at the same lines
        # (fresh: a file name no module of this process ever had)
        self.filename = "<icv-expr-reloaded>" if role == "require" and not fresh else "<icv-expr-{}>".format(next(_SERIAL))
        self.fn = {}  # type: Dict[str, Any]
        self.native = {}  # type: Dict[str, Any]
        self.recorded = {}  # type: Dict[str, Any]
        self.tree = {}  # type: Dict[str, dict]
        self.text = {}  # type: Dict[str, str]
        self.ident_calls = []  # type: List[Any]
        self.rec_log = []  # type: List[Tuple[int, Any]]
        lines = ["import icontract", "", "x = 'global-x'", "y = 'global-y'", "c = 'global-c'", "g = [7]", ""]
        for key, e in exprs.items():
            tree, _ = parse(e)
            self.tree[key] = tree
            txt = render(tree)
            self.text[key] = txt
            n = len(self.fn) + 1
            self.fn[key] = "f{}".format(n)
            lines.append("def make{}(c, id=None):".format(n))   # id: named like a builtin, bound to None
            lines.append("    @icontract.{}(lambda x, y: {})".format(deco, txt))
            lines.append("    {}def f(x, y, z='zed'):".format(prefix))
            lines.append("        return 1")
            lines.append("    def set_c(v):")
            lines.append("        nonlocal c")
            lines.append("        c = v")
            lines.append("    return f, (lambda x, y: {}), (lambda x, y: {}), set_c".format(txt, render(tree, rec=True)))
            lines.append("f{0}, n{0}, r{0}, s{0} = make{0}(5)".format(n))
            lines.append("fb{0} = make{0}(5)[0]".format(n))   # a twin that never saw another value of the closure
            lines.append("")
        src = "\n".join(lines) + "\n"
        self.source = src
        linecache.cache[self.filename] = (len(src), None, src.splitlines(True), self.filename)
        ns = {"ident": self._ident, "R": self._rec, "digits": _digits, "__name__": "icv_expr"}
        import warnings
        with warnings.catch_warnings():
            warnings.simplefilter("ignore")
            exec(compile(src, self.filename, "exec"), ns)
        self.ns = ns

    def _ident(self, v: Any) -> Any:
        self.ident_calls.append(v)
        return v

    def _rec(self, pos: int, thunk: Any) -> Any:
        self.rec_log.append((pos, _ENTER))
        v = thunk()
        self.rec_log.append((pos, v))
        return v

    def call(self, n: str, xv: Any, yv: Any, twin: bool = False) -> Any:
        """Call the contracted function (drive it to completion if it is a coroutine function)."""
        f = self.ns[("fb" if twin else "f") + n]
        if not self.role.endswith("_async"):
            return f(xv, yv)
        coro = f(xv, yv)
        try:
            coro.send(None)
        except StopIteration as stop:
            return stop.value
        coro.close()
        raise MachineryError("the coroutine of an expression case suspended")

    def close(self) -> None:
        linecache.cache.pop(self.filename, None)


def _strip_location(msg: str) -> str:
    lines = msg.split("\n")
    return "\n".join(lines[1:]) if lines and lines[0].startswith("File ") else msg


def parse_message(msg: str, cond_text: str) -> Optional[Dict[str, str]]:
    lines = msg.split("\n")
    if lines and lines[0].startswith("File "):
        body = "\n".join(lines[1:])
    else:
        body = msg
    if not body.startswith(cond_text):
        return None
    rest = body[len(cond_text):]
    if rest == "":
        return {}
    if rest.startswith(": "):
        items = [rest[2:]]
    elif rest.startswith(":\n"):
        items = rest[2:].split("\n")
    else:
        return None
    out = {}
    last = None
    for it in items:
        if it.startswith("  ") and last is not None:
            out[last] += "\n" + it
            continue
        if " was " not in it:
            return None
        k, v = it.split(" was ", 1)
        out[k] = v
        last = k
    return out


def check_cases(res: CheckResult, prop_clauses: Dict[str, set], cases: List[dict], viol: Dict[int, dict],
                py: Dict[int, dict], ic: Any, role: str = "require") -> Dict[str, int]:
    """Replay every case; cross-check the specification's Python model against CPython; compare the message."""
    by_expr = {}  # type: Dict[str, list]
    for c in cases:
        by_expr.setdefault(json.dumps(c["expr"]), c["expr"])
    stats = {"cases": 0, "violated": 0, "lines_compared": 0, "python_raises": 0, "holds": 0}
    keys = list(by_expr)
    CH = 400
    for off in range(0, len(keys), CH):
        chunk = {k: by_expr[k] for k in keys[off:off + CH]}
        mod = ExprModule(chunk, ic, role)
        uses_c = {k_: any(nd_["k"] == "name" and nd_["a"] == 3 for nd_ in e_) for k_, e_ in chunk.items()}
        try:
            for c in cases:
                key = json.dumps(c["expr"])
                if key not in chunk:
                    continue
                stats["cases"] += 1
                objs = {}  # type: Dict[int, Obj]
                xv, yv = py_value(c["env"][0], objs), py_value(c["env"][1], objs)
                n = mod.fn[key][1:]
                text = mod.text[key]
                tree = mod.tree[key]
                spec_py = py.get(c["cid"])
                if spec_py is None:
                    raise MachineryError("no specification output for case {}".format(c["cid"]))
                # 1. CPython itself (trusted) vs the specification's model of Python: verdict, evaluated nodes, values
                mod.rec_log = []
                try:
                    val = mod.ns["r" + n](xv, yv)
                    # (a condition VALUE without a truth value: the library reports it as ValueError, see below)
                    cpy = ("ok", True if isinstance(val, Amb) else bool(val), val)
                except Exception as exc:  # noqa
                    cpy = ("exc", False, exc)
                evaluated = sorted({p for p, _ in mod.rec_log})
                if spec_py["py"] != cpy[0] or (cpy[0] == "ok" and bool(spec_py["truthy"]) != cpy[1]) or \
                        sorted(spec_py["evaluated"]) != evaluated or \
                        (cpy[0] == "ok" and not _same_value(spec_py["v"], cpy[2])):
                    raise MachineryError("the specification's model of Python disagrees with CPython on `{}` with x={!r} "
                                         "y={!r}: spec {} vs CPython {} evaluated {}".format(
                                             text, xv, yv, spec_py, cpy[:2], evaluated))
                # 2. the implementation
                if uses_c.get(key):
                    # the closure variable had another value during an earlier (possibly violated) call: the message
                    # of THIS violation must show the value it has now
                    mod.ns["s" + n](99)
                    try:
                        mod.call(n, xv, yv)
                    except Exception:  # noqa
                        pass
                    mod.ns["s" + n](C_VALUE[1])
                mod.ident_calls = []
                try:
                    out = mod.call(n, xv, yv)
                    got = ("ret", out)  # type: Any
                except ic.ViolationError as exc:
                    got = ("violation", str(exc))
                except Exception as exc:  # noqa
                    got = ("exc", exc)
                if uses_c.get(key) and got[0] == "violation":
                    # the same violation on a twin whose closure never held another value: the identical message
                    saved_calls = list(mod.ident_calls)
                    try:
                        mod.call(n, xv, yv, twin=True)
                        twin_msg = None  # type: Any
                    except ic.ViolationError as exc:
                        twin_msg = str(exc)
                    except Exception as exc:  # noqa
                        twin_msg = repr(exc)
                    mod.ident_calls = saved_calls      # (the twin's own calls of ident() do not count)
                    if twin_msg is not None and _strip_location(twin_msg) != _strip_location(got[1]):
                        _viol(res, prop_clauses, "msg.depends_on_earlier_calls",
                              "`{}` x={!r} y={!r}: the message differs after an earlier call during which the closure "
                              "variable had another value: {!r} vs {!r}".format(text, xv, yv, got[1][-200:], twin_msg[-200:]), c)
                        continue
                ncalls_first = sum(1 for p in evaluated if _kind_at(tree, p) == "ident" and _completed(mod.rec_log, p))
                if cpy[0] == "exc":
                    stats["python_raises"] += 1
                    if got[0] != "exc" or type(got[1]) is not type(cpy[2]):
                        _viol(res, prop_clauses, "msg.replaced_by_other_exception",
                              "`{}` x={!r} y={!r}: Python raises {!r}, the call gave {!r}".format(text, xv, yv, cpy[2], got), c)
                    continue
                if cpy[0] == "ok" and isinstance(cpy[2], Amb):
                    # the value of the condition has no truth value: documented ValueError chaining the original error
                    if got[0] != "exc" or not isinstance(got[1], ValueError) or got[1].__cause__ is None:
                        _viol(res, prop_clauses, "msg.replaced_by_other_exception",
                              "`{}` x={!r} y={!r}: the condition value has no truth value; expected the documented "
                              "ValueError chaining the TypeError, got {!r}".format(text, xv, yv, got), c)
                    continue
                if cpy[1]:
                    stats["holds"] += 1
                    if got != ("ret", 1):
                        _viol(res, prop_clauses, "msg.replaced_by_other_exception",
                              "`{}` x={!r} y={!r}: the condition holds but the call gave {!r}".format(text, xv, yv, got), c)
                    continue
                stats["violated"] += 1
                want = viol.get(c["cid"])
                if want is not None and want.get("nonefree"):
                    stats["complete_claimed"] = stats.get("complete_claimed", 0) + 1   # ShownComplete's antecedent holds
                if want is None:
                    raise MachineryError("case {} is violated but the specification printed no expectation".format(c["cid"]))
                lines = parse_message(got[1], text) if got[0] == "violation" else None
                if lines is None and "reloaded" in mod.filename:
                    # not the message of this violation: is it the message this very violation gets in a module whose file
                    # name was never used before?  Then what is reported depends on what was loaded / violated earlier.
                    fresh_mod = ExprModule({"k": c["expr"]}, ic, role, fresh=True)
                    try:
                        try:
                            fresh_mod.call("1", xv, yv)
                            fresh_msg = None  # type: Any
                        except ic.ViolationError as exc:
                            fresh_msg = str(exc)
                        except Exception:  # noqa
                            fresh_msg = None
                    finally:
                        fresh_mod.close()
                    if fresh_msg is not None and parse_message(fresh_msg, text) is not None:
                        _viol(res, prop_clauses, "msg.depends_on_earlier_calls",
                              "`{}` x={!r} y={!r}: in a module loaded under a file name used before the caller got {!r}, the "
                              "same violation under a fresh file name gives {!r}".format(
                                  text, xv, yv, (got[1] if got[0] == "violation" else repr(got[1]))[-200:], fresh_msg[-200:]), c)
                        continue
                if got[0] != "violation":
                    _viol(res, prop_clauses, "msg.replaced_by_other_exception",
                          "`{}` with x={!r} y={!r} is falsy; instead of ViolationError the caller got {!r} (cause {!r})".format(
                              text, xv, yv, got[1], getattr(got[1], "__cause__", None)), c)
                    continue
                if lines is None:
                    _viol(res, prop_clauses, "msg.text", "`{}`: message does not carry the condition text: {!r}".format(
                        text, got[1]), c)
                    continue
                # what must be listed: the call arguments, and every shown node with the value Python computed
                tx = {}  # type: Dict[int, str]
                texts(tree, tx)
                expect = {"x": repr(xv), "y": repr(yv), "z": "'zed'"}  # z: an argument the condition does not name
                if "result" in lines and role.startswith("ensure"):
                    expect["result"] = "1"
                for pos, t, nn, ss in want["shown"]:
                    expect[tx[pos]] = repr(py_value({"t": t, "n": nn, "s": ss}, objs))
                stats["lines_compared"] += len(expect)
                for k_, v_ in expect.items():
                    if k_ not in lines:
                        _viol(res, prop_clauses, "msg.value_missing",
                              "`{}` x={!r} y={!r}: `{} was {}` is missing from the message {!r}".format(
                                  text, xv, yv, k_, v_, lines), c)
                        break
                    if lines[k_] != v_:
                        _viol(res, prop_clauses, "msg.value_unsound",
                              "`{}` x={!r} y={!r}: the message says `{} was {}` but Python computes {}".format(
                                  text, xv, yv, k_, lines[k_], v_), c)
                        break
                else:
                    extra = [k_ for k_ in lines if k_ not in expect]
                    # The specification is conservative where a name is bound to None (the re-evaluator's "unknown"
                    # marker): a line it does not predict is still sound if CPython evaluated that very
                    # sub-expression to that very value.
                    cpy_vals = {p_: v_ for p_, v_ in mod.rec_log if v_ is not _ENTER}
                    sound_extra = []
                    for k_ in extra:
                        for p_, t_ in tx.items():
                            if t_ == k_ and p_ in cpy_vals:
                                shown_v = lines[k_]
                                if shown_v == repr(cpy_vals[p_]) or (
                                        cpy_vals[p_] is False and shown_v.startswith("False, e.g., with")):
                                    sound_extra.append(k_)
                                    break
                    extra = [k_ for k_ in extra if k_ not in sound_extra]
                    if extra:
                        _viol(res, prop_clauses, "msg.value_unsound",
                              "`{}` x={!r} y={!r}: the message lists `{}` which Python did not evaluate (or is not "
                              "expected): {!r}".format(text, xv, yv, extra[0], lines), c)
                    elif list(lines) != sorted(lines):
                        _viol(res, prop_clauses, "msg.unsorted", "`{}`: value lines are not sorted: {!r}".format(
                            text, list(lines)), c)
                # sub-expressions Python skipped must not be evaluated while the message is built
                ncalls_msg = len(mod.ident_calls) - ncalls_first
                if ncalls_msg > want["identcalls"] and want["identcalls"] > 0 and ncalls_msg % want["identcalls"] == 0 \
                        and set(p_ for p_ in want["touched"]) <= set(want["evaluated"]):
                    # nothing outside Python's own evaluation was touched, but the same operands were evaluated again
                    _viol(res, prop_clauses, "msg.operand_evaluated_again",
                          "`{}` x={!r} y={!r}: ident() was called {} times while building the message, once per "
                          "operand ({}) is allowed".format(text, xv, yv, ncalls_msg, want["identcalls"]), c)
                elif ncalls_msg != want["identcalls"]:
                    _viol(res, prop_clauses, "msg.touched_skipped_node",
                          "`{}` x={!r} y={!r}: ident() was called {} times while building the message, the "
                          "specification allows {}".format(text, xv, yv, ncalls_msg, want["identcalls"]), c)
                if len(res.violations) > 60:
                    return stats
        finally:
            mod.close()
    return stats


def _kind_at(tree: dict, pos: int) -> str:
    if tree["pos"] == pos:
        return tree["k"]
    for kid in tree["kids"]:
        r = _kind_at(kid, pos)
        if r:
            return r
    return ""


def _completed(rec_log: list, pos: int) -> bool:
    return any(p == pos and v is not _ENTER for p, v in rec_log)


def _viol(res: CheckResult, prop_clauses: Dict[str, set], clause: str, what: str, case: dict) -> None:
    props = prop_clauses.get(clause, set())
    if res.prop in props:
        res.violation(clause, what, {"signature": clause, "case": case})
    else:
        res.note("nonconformance outside {} (clause={} -> {}): {}".format(res.prop, clause, ",".join(sorted(props)), what[:160]))


# ------------------------------------------------------------------------------------------------------
SMALL_LEAVES = [("name", 1), ("name", 2), ("int", 0), ("int", 2), ("none", 0), ("name", 3), ("name", 4)]


def _nd(k: str, a: int = 0) -> dict:
    return {"k": k, "a": a}


def fam_depth1() -> List[list]:
    return list(trees(1))


def fam_nested(rng: random.Random, budget: int) -> List[list]:
    """Unary operators (calls, subscripts, attributes, not, -) over boolean / conditional / comparison
    sub-expressions, and binary operators with such operands: where a wrongly re-computed value gets displayed."""
    leaves = [[_nd(k, a)] for k, a in SMALL_LEAVES]
    inner = []
    for k in ("and", "or", "lt", "in", "add", "eq"):
        for a in leaves:
            for b in leaves:
                inner.append([_nd(k)] + a + b)
    for k in ("ifexp", "lt2", "and3", "or3"):
        for a in leaves:
            for b in leaves:
                for c in leaves:
                    inner.append([_nd(k)] + a + b + c)
    out = []
    for u in UNARY:
        for e in inner:
            out.append([_nd(u)] + e)
    for k in ("eq", "lt", "add", "and", "or"):
        for e in rng.sample(inner, 120):
            for l in leaves:
                out.append([_nd(k)] + e + l)
                out.append([_nd(k)] + l + e)
    # the value of a quantifier used by an enclosing expression
    quants = [[_nd(q)] + l for q in ("all_gt", "all_pos") for l in leaves if l[0]["k"] == "name"]
    for qe in quants:
        for u in ("not", "ident", "neg", "isnone", "len"):
            out.append([_nd(u)] + qe)
        for k in ("eq", "add", "and", "or", "lt", "in"):
            for l in leaves + [[_nd("false")], [_nd("true")]]:
                out.append([_nd(k)] + qe + l)
                out.append([_nd(k)] + l + qe)
        out.append([_nd("ifexp")] + qe + [_nd("int", 1)] + [_nd("int", 0)])
        out.append([_nd("ident")] + [_nd("eq")] + qe + [_nd("false")])
    if len(out) > budget:
        keep = out[-len(quants) * 90:]
        out = rng.sample(out[:-len(quants) * 90], max(0, budget - len(keep))) + keep
    return out


def fam_typeof(rng: random.Random) -> List[list]:
    """Calls whose result is a class (type(..)) used by comparisons, boolean operators and other calls; operands of a
    comparison chain that are calls (each must be evaluated at most once while the message is built)."""
    names = [[_nd("name", 1)], [_nd("name", 2)], [_nd("name", 3)]]
    out = []
    for a in names:
        ta = [_nd("typeof")] + a
        out += [[_nd("not")] + ta, [_nd("ident")] + ta, [_nd("isnone")] + ta, [_nd("typeof")] + ta,
                [_nd("not")] + [_nd("ident")] + ta]
        for b in names:
            tb = [_nd("typeof")] + b
            out += [[_nd("eq")] + ta + tb, [_nd("not")] + [_nd("eq")] + ta + tb, [_nd("and")] + ta + [_nd("eq")] + ta + tb,
                    [_nd("or")] + [_nd("eq")] + ta + tb + [_nd("isnone")] + b,
                    [_nd("ifexp")] + [_nd("eq")] + ta + tb + [_nd("false")] + [_nd("isnone")] + ta]
    # list displays and calls with a plain argument after a starred one, made falsy by the enclosing expression
    i0, i2 = [_nd("int", 0)], [_nd("int", 2)]
    for a in names:
        for b in names + [i2]:
            pl = [_nd("pairlen")] + a + b
            st = [_nd("star_then")] + a + b
            out += [[_nd("not")] + pl, [_nd("lt")] + pl + i0, [_nd("eq")] + pl + i0, [_nd("and")] + pl + [_nd("false")],
                    [_nd("lt")] + st + i0, [_nd("not")] + [_nd("ident")] + st, [_nd("eq")] + st + [_nd("none")],
                    [_nd("and")] + a + [_nd("lt")] + st + i0]
    # chains over the harness's objects (the links answer 0 / 1): a falsy link ends the chain like False does
    ox, oy = [_nd("name", 1)], [_nd("name", 2)]
    for a, b, c3 in ((ox, oy, i2), (oy, ox, i2), (ox, oy, [_nd("first")] + ox), (oy, ox, [_nd("attr")] + i0), (ox, ox, oy)):
        out += [[_nd("lt2")] + a + b + c3, [_nd("not")] + [_nd("ident")] + [_nd("lt2")] + a + b + c3,
                [_nd("and")] + [_nd("lt2")] + a + b + c3 + [_nd("true")]]
    # chains with calls as operands
    for a in names[:2]:
        for b in names[:2]:
            ia, ib = [_nd("ident")] + a, [_nd("ident")] + b
            out += [[_nd("lt2")] + i0 + ia + i2, [_nd("lt2")] + ia + ib + i2, [_nd("lt2")] + i0 + ia + ib,
                    [_nd("lt2")] + ia + i2 + ib, [_nd("not")] + [_nd("ident")] + [_nd("lt2")] + i0 + ia + ib]
    return out


def fam_all_nest() -> List[list]:
    """A quantifier with nested loop targets ``for i, (e, d) in ...``: the example names every loop variable."""
    names = [[_nd("name", 1)], [_nd("name", 2)], [_nd("name", 3)]]
    out = []
    for a in names:
        for b in names:
            q = [_nd("all_nest")] + a + b
            out += [q, [_nd("and")] + q + [_nd("true")], [_nd("or")] + q + [_nd("false")], [_nd("not")] + [_nd("not")] + q,
                    [_nd("ident")] + q, [_nd("eq")] + q + [_nd("true")], [_nd("ifexp")] + q + [_nd("true")] + [_nd("false")],
                    [_nd("and")] + a + q, [_nd("isnone")] + q]
    return out


def fam_fstr() -> List[list]:
    """Formatted string literals f"{<c>}" (shown as a whole, with the text Python built): falsified by the enclosing
    expression; operands incl. the harness's objects, which format unlike str()."""
    x, y, cn, i2, no = [_nd("name", 1)], [_nd("name", 2)], [_nd("name", 3)], [_nd("int", 2)], [_nd("none")]
    subs = [x, y, cn, i2, no, [_nd("attr")] + x, [_nd("first")] + y, [_nd("and")] + x + y, [_nd("or")] + x + y,
            [_nd("ident")] + x, [_nd("ifexp")] + x + y + i2]
    out = []
    for a in subs:
        fa = [_nd("fstr")] + a
        out += [[_nd("not")] + fa, [_nd("isnone")] + fa, [_nd("isnone")] + [_nd("ident")] + fa, [_nd("and")] + fa + [_nd("false")],
                [_nd("and3")] + x + fa + [_nd("false")], [_nd("ifexp")] + fa + [_nd("false")] + [_nd("true")],
                [_nd("not")] + [_nd("or")] + fa + y]
        for b in subs[:5]:
            out.append([_nd("eq")] + fa + [_nd("fstr")] + b)
            out.append([_nd("not")] + [_nd("ident")] + [_nd("eq")] + fa + [_nd("fstr")] + b)
    return out


def fam_builtin_named() -> List[list]:
    """A variable of the condition named like a builtin (``id``) and bound to None, behind the usual guards."""
    i, x = [_nd("name", 5)], [_nd("name", 1)]
    i0, i2 = [_nd("int", 0)], [_nd("int", 2)]
    guards = [i, [_nd("not")] + [_nd("isnone")] + i, [_nd("isnone")] + i, [_nd("not")] + i, [_nd("eq")] + i + [_nd("none")]]
    uses = [[_nd("lt")] + i0 + i, [_nd("lt")] + i + i2, [_nd("lt")] + i0 + [_nd("first")] + i, [_nd("lt")] + [_nd("len")] + i + i2,
            [_nd("lt")] + [_nd("attr")] + i + i2, [_nd("lt")] + i0 + [_nd("add")] + i + i2, [_nd("in")] + i2 + i]
    out = [[_nd("not")] + [_nd("isnone")] + i, i, [_nd("and")] + x + i, [_nd("ident")] + i, [_nd("eq")] + i + x,
           [_nd("not")] + [_nd("ident")] + [_nd("isnone")] + i]
    for g in guards:
        for u in uses:
            out.append([_nd("and")] + g + u)
            out.append([_nd("or")] + g + u)
            out.append([_nd("ifexp")] + g + u + [_nd("false")])
            out.append([_nd("and3")] + x + g + u)
    return out


def fam_guards(rng: random.Random, budget: int) -> List[list]:
    """Guard patterns: later operands are defined only if earlier ones hold (the documented recipes)."""
    x, y = [_nd("name", 1)], [_nd("name", 2)]
    i0, i2 = [_nd("int", 0)], [_nd("int", 2)]
    atoms = [x, y, i0, i2, [_nd("none")]]
    guards = []
    for n in (x, y):
        guards += [n, [_nd("isnone")] + n, [_nd("not")] + [_nd("isnone")] + n, [_nd("len")] + n, [_nd("not")] + n,
                   [_nd("lt")] + i0 + n, [_nd("lt")] + i0 + [_nd("len")] + n]
    uses = []
    for n in (x, y):
        uses += [[_nd("lt")] + i0 + [_nd("first")] + n, [_nd("lt")] + [_nd("attr")] + n + i2,
                 [_nd("lt")] + i0 + [_nd("floordiv")] + i2 + n, [_nd("ident")] + [_nd("first")] + n,
                 [_nd("lt")] + [_nd("len")] + n + i2, [_nd("lt")] + [_nd("ident")] + n + i2,
                 [_nd("eq")] + [_nd("first")] + n + [_nd("attr")] + (y if n is x else x)]
    out = []
    for g in guards:
        for u in uses:
            out.append([_nd("and")] + g + u)
            out.append([_nd("or")] + g + u)
            out.append([_nd("ifexp")] + g + u + [_nd("false")])
            for g2 in rng.sample(guards, 3):
                out.append([_nd("and3")] + g + g2 + u)
                out.append([_nd("or3")] + g + g2 + u)
    for a in atoms:
        for b in atoms:
            for u in uses:
                out.append([_nd("lt2")] + a + b + u[1 + 1:] if False else [_nd("lt2")] + a + b + [_nd("floordiv")] + i2 + b)
    # conditions wrapped in a call (the value of the boolean operation itself is displayed)
    out += [[_nd("not")] + [_nd("ident")] + e for e in rng.sample(out, min(len(out), 300))]
    seen, uniq = set(), []
    for e in out:
        key = json.dumps(e)
        if key not in seen:
            seen.add(key)
            uniq.append(e)
    if len(uniq) > budget:
        uniq = rng.sample(uniq, budget)
    return uniq


# ------------------------------------------------------------------------------------------------------
# Source layouts of the decorator (C07: the layout must not matter)
LAYOUTS = {
    "one-line": "@icontract.require(lambda x, y: {E})\ndef {F}(x, y):\n    return 1\n",
    "lambda-next-line": "@icontract.require(\n    lambda x, y: {E})\ndef {F}(x, y):\n    return 1\n",
    "body-next-line": "@icontract.require(\n    lambda x, y:\n        {E}\n)\ndef {F}(x, y):\n    return 1\n",
    "body-parenthesised": "@icontract.require(lambda x, y: (\n    {E}\n))\ndef {F}(x, y):\n    return 1\n",
    "keyword": "@icontract.require(condition=lambda x, y: {E})\ndef {F}(x, y):\n    return 1\n",
    "description-positional": "@icontract.require(lambda x, y: {E}, 'a description')\ndef {F}(x, y):\n    return 1\n",
    "description-first": "@icontract.require(description='a description', condition=lambda x, y: {E})\ndef {F}(x, y):\n    return 1\n",
    "error-class": "@icontract.require(lambda x, y: {E}, error=MyError)\ndef {F}(x, y):\n    return 1\n",
    "error-first": "@icontract.require(error=MyError, description='a description',\n                   condition=lambda x, y: {E})\ndef {F}(x, y):\n    return 1\n",
    "a_repr": "@icontract.require(lambda x, y: {E}, a_repr=MY_REPR)\ndef {F}(x, y):\n    return 1\n",
    "trailing-comment": "@icontract.require(lambda x, y: {E})  # a comment, with (parentheses) and a lambda x: word\ndef {F}(x, y):\n    return 1\n",
    "comment-lines": "# a comment above\n@icontract.require(lambda x, y: {E})\n# a comment below the decorator\ndef {F}(x, y):\n    return 1\n",
    "between-contracts": "@icontract.require(lambda x: True)\n@icontract.require(lambda x, y: {E})\n@icontract.ensure(lambda result: True)\ndef {F}(x, y):\n    return 1\n",
    "foreign-above": "@foreign\n@icontract.require(lambda x, y: {E})\ndef {F}(x, y):\n    return 1\n",
    "foreign-below": "@icontract.require(lambda x, y: {E})\n@foreign\ndef {F}(x, y):\n    return 1\n",
    "async-def": "@icontract.require(lambda x, y: {E})\nasync def {F}_co(x, y):\n    return 1\ndef {F}(x, y):\n    return run({F}_co(x, y))\n",
    "in-class": "class K{F}:\n    @icontract.require(lambda x, y: {E})\n    def m(self, x, y):\n        return 1\ndef {F}(x, y):\n    return K{F}().m(x, y)\n",
    "static-in-class": "class K{F}:\n    @staticmethod\n    @icontract.require(lambda x, y: {E})\n    def m(x, y):\n        return 1\ndef {F}(x, y):\n    return K{F}.m(x, y)\n",
    "in-function": "def make_{F}():\n    @icontract.require(lambda x, y: {E})\n    def inner(x, y):\n        return 1\n    return inner\n{F} = make_{F}()\n",
    "nested-class-in-function": "def make_{F}():\n    class Outer:\n        class Inner:\n            @icontract.require(\n                lambda x, y:\n                {E})\n            def m(self, x, y):\n                return 1\n    return Outer.Inner().m\n{F} = make_{F}()\n",
    "ensure": "@icontract.ensure(lambda x, y, result: {E})\ndef {F}(x, y):\n    return 1\n",
    "ensure-multiline": "@icontract.ensure(\n    lambda x, y, result:\n    {E},\n    'a description')\ndef {F}(x, y):\n    return 1\n",
    "dbc-method": "class D{F}(icontract.DBC):\n    @icontract.require(lambda x, y: {E})\n    def m(self, x, y):\n        return 1\ndef {F}(x, y):\n    return D{F}().m(x, y)\n",
    "continuation-identifiers": "@icontract.require(\n    lambda x, y: {E},\n    description=\n    definitely,\n    error=\n    classy_error)\ndef {F}(x, y):\n    return 1\n",
    "continuation-identifiers-2": "@icontract.require(\n    error=\n    classy_error, condition=lambda x, y:\n    {E}, description=\n    definitely)\ndef {F}(x, y):\n    return 1\n",
    "default-dict": "@icontract.require(lambda x, y, known={'ok': 200, 'gone': 410}: {E})\ndef {F}(x, y):\n    return 1\n",
    "default-slice": "@icontract.require(lambda x, y, part=[1, 2, 3][0:2]: {E})\ndef {F}(x, y):\n    return 1\n",
    "default-lambda": "@icontract.require(lambda x, y, fn=lambda z: z: {E})\ndef {F}(x, y):\n    return 1\n",
    # a named predicate defined elsewhere in the file: the location is where the CONTRACT is declared (the decorator)
    "named-predicate": "def pred_{F}(x, y):\n    return {E}\n\n\n@icontract.require(pred_{F})\ndef {F}(x, y):\n    return 1\n",
    # a description with braces is text, not a format string
    "description-braces": "@icontract.require(lambda x, y: {E}, 'one of {1, 2} or {} - see {x}')\ndef {F}(x, y):\n    return 1\n",
    "blank-lines-and-tabs": "@icontract.require(\n\n\tlambda x, y: {E}\n\n)\ndef {F}(x, y):\n    return 1\n",
}


class LayoutModule:
    def __init__(self, items: List[Tuple[str, str, str]], ic: Any) -> None:
        """items: (function name, layout name, expression text)"""
        import asyncio
        import functools
        import reprlib
        self.filename = "<icv-layout-{}>".format(next(_SERIAL))
        src = "import icontract\n\n"
        self.first_line = {}  # type: Dict[str, int]     # line of the source at which the item of a function starts
        for fname, layout, text in items:
            self.first_line[fname] = src.count("\n") + 1
            src += LAYOUTS[layout].replace("{E}", text).replace("{F}", fname) + "\n"
        linecache.cache[self.filename] = (len(src), None, src.splitlines(True), self.filename)
        self.ident_calls = []  # type: List[Any]

        def foreign(fn: Any) -> Any:
            @functools.wraps(fn)
            def w(*a: Any, **k: Any) -> Any:
                return fn(*a, **k)
            return w

        def run(coro: Any) -> Any:
            try:
                coro.send(None)
            except StopIteration as stop:
                return stop.value
            raise RuntimeError("coroutine suspended")

        class MyError(Exception):
            pass

        my_repr = reprlib.Repr()
        my_repr.maxlist = 50
        self.MyError = MyError
        self.ns = {"ident": self._ident, "digits": _digits, "foreign": foreign, "run": run, "MyError": MyError, "MY_REPR": my_repr,
                   "__name__": "icv_layout", "definitely": "a description", "classy_error": MyError,
                   "default_of": (lambda v: v), "c": 5, "g": [7], "id": None}
        import warnings
        with warnings.catch_warnings():
            warnings.simplefilter("ignore")
            exec(compile(src, self.filename, "exec"), self.ns)
        self.source = src

    def _ident(self, v: Any) -> Any:
        self.ident_calls.append(v)
        return v

    def close(self) -> None:
        linecache.cache.pop(self.filename, None)


def check_layouts(res: CheckResult, prop_clauses: Dict[str, set], cases: List[dict], viol: Dict[int, dict], ic: Any,
                  rng: random.Random, ncases: int) -> Dict[str, int]:
    """The same violated condition in every source layout must give the same message (C07)."""
    import ast
    vc = [c for c in cases if c["cid"] in viol and viol[c["cid"]]["rec"] != "exc"]
    if len(vc) > ncases:
        vc = rng.sample(vc, ncases)
    stats = {"layout_cases": 0, "layouts": len(LAYOUTS)}
    for c in vc:
        tree, _ = parse(c["expr"])
        text = render(tree)
        items = [("g{}".format(i), name, text) for i, name in enumerate(LAYOUTS)]
        mod = LayoutModule(items, ic)
        try:
            objs = {}  # type: Dict[int, Obj]
            xv, yv = py_value(c["env"][0], objs), py_value(c["env"][1], objs)
            ref = None
            for fname, layout, _ in items:
                stats["layout_cases"] += 1
                try:
                    mod.ns[fname](xv, yv)
                    got = None  # type: Any
                except (ic.ViolationError, mod.MyError) as exc:
                    got = exc
                except Exception as exc:  # noqa
                    _viol(res, prop_clauses, "msg.replaced_by_other_exception",
                          "layout {}: `{}` x={!r} y={!r}: {!r}".format(layout, text, xv, yv, exc), c)
                    continue
                if got is None:
                    _viol(res, prop_clauses, "msg.replaced_by_other_exception",
                          "layout {}: `{}` x={!r} y={!r}: no error raised".format(layout, text, xv, yv), c)
                    continue
                want_cls = mod.MyError if layout in ("error-class", "error-first", "continuation-identifiers",
                                                    "continuation-identifiers-2") else ic.ViolationError
                if type(got) is not want_cls:
                    _viol(res, prop_clauses, "msg.replaced_by_other_exception",
                          "layout {}: error class {} instead of {}".format(layout, type(got).__name__, want_cls.__name__), c)
                    continue
                msg = str(got)
                lines = msg.split("\n")
                if not lines[0].startswith("File {}, line ".format(mod.filename)):
                    _viol(res, prop_clauses, "msg.header", "layout {}: no location line: {!r}".format(layout, msg[:200]), c)
                    continue
                body = "\n".join(lines[1:])
                if layout == "named-predicate":
                    # no condition text to recover; the location line names the line of the decorator (the 5th line of the
                    # item), not the line where the predicate happens to be defined
                    want_line = mod.first_line[fname] + 4
                    if not lines[0].startswith("File {}, line {} in ".format(mod.filename, want_line)):
                        _viol(res, prop_clauses, "msg.header", "layout {}: the contract is declared at line {} but the message "
                              "says {!r}".format(layout, want_line, lines[0][:120]), c)
                    continue
                if layout == "description-braces":
                    dtext = "one of {1, 2} or {} - see {x}: "
                    if not body.startswith(dtext):
                        _viol(res, prop_clauses, "msg.header", "layout {}: the description is not carried verbatim: {!r}".format(
                            layout, body[:200]), c)
                        continue
                    body = body[len(dtext):]
                if layout in ("description-positional", "description-first", "error-first", "ensure-multiline",
                              "continuation-identifiers", "continuation-identifiers-2"):
                    if not body.startswith("a description: "):
                        _viol(res, prop_clauses, "msg.header", "layout {}: description missing: {!r}".format(layout, body[:200]), c)
                        continue
                    body = body[len("a description: "):]
                # condition text: up to the value part
                m = re.search(r":(?: |\n)(?=[^\n]* was )", body)
                ctext = body[:m.start()] if m else body
                rest = body[m.start():] if m else ""
                try:
                    same = ast.dump(ast.parse(ctext.strip(), mode="eval")) == ast.dump(ast.parse(text, mode="eval"))
                except SyntaxError:
                    same = False
                if not same:
                    _viol(res, prop_clauses, "msg.text",
                          "layout {}: the reported condition text {!r} does not parse to the condition `{}`".format(
                              layout, ctext, text), c)
                    continue
                vals = parse_message(text + rest, text)
                if layout.startswith("ensure") and vals is not None:
                    vals.pop("result", None)
                if layout in ("in-class", "dbc-method", "nested-class-in-function") and vals is not None:
                    vals.pop("self", None)
                if ref is None:
                    ref = (layout, vals)
                elif vals != ref[1]:
                    _viol(res, prop_clauses, "msg.layout_differs",
                          "`{}` x={!r} y={!r}: layout {} lists {!r} but layout {} lists {!r}".format(
                              text, xv, yv, layout, vals, ref[0], ref[1]), c)
        finally:
            mod.close()
    return stats
