"""ICDefine pipeline: histories of class statements -> TLC (views after each step) -> the same history on the real
icontract (projection of the introspection interface after each step) -> comparison; plus hand-evaluation of the
introspected lists against real calls for all truth assignments (C04, C18)."""
import functools
import inspect
import itertools
import json
import os
import shutil
from typing import Any, Dict, List, Optional, Tuple

from icv import tlc

DEF_SWITCHES = ["SwNoOwnEmptyInvList", "SwKeepBasePre", "SwSnapAnyChecker", "SwDropForeign", "SwWrapByLast",
                "SwRebindWrapped", "SwShareGroups", "SwRecollapse", "SwCloneAdoptsInherited", "SwLateInvAppendsToBase", "SwDiamondDuplicates", "SwShadow"]
DEF_ALL_OFF = {n: False for n in DEF_SWITCHES}
DEF_INVARIANTS = ["EffPreEqRef", "EffPostEqRef", "EffSnapEqRef", "EffInvEqRef", "RejectedExactly", "NoSharedInvList",
                  "SingleChecker", "ForeignKept", "RegisteredOnce"]
DEF_PROPERTIES = ["NonInterference"]


def def_cfg(switches: Dict[str, bool], invariants: List[str], properties: List[str], emit: bool) -> str:
    lines = ["SPECIFICATION DSpec", "CONSTANTS", "  HistSpace <- MCHistSpace"]
    for n in DEF_SWITCHES:
        lines.append("  {} = {}".format(n, "TRUE" if switches.get(n) else "FALSE"))
    for inv in invariants + (["PrintStep", "PrintPostHoc"] if emit else []):
        lines.append("INVARIANT " + inv)
    for pr in properties:
        lines.append("PROPERTY " + pr)
    lines.append("CHECK_DEADLOCK FALSE")
    return "\n".join(lines) + "\n"


def model_check_def(hists: List[dict], switches: Dict[str, bool], invariants: Optional[List[str]] = None,
                    properties: Optional[List[str]] = None, emit: bool = True) -> Tuple[tlc.TlcResult, Dict[int, Dict[int, dict]]]:
    CHUNK = 4000
    if len(hists) > CHUNK:
        # big families are explored in several TLC runs (every history is an initial state of its own, so the union of the
        # runs is the exploration of the whole family); keeps the heap bounded
        total = tlc.TlcResult()
        total.ok = True
        merged = {}  # type: Dict[int, Dict[int, dict]]
        for off in range(0, len(hists), CHUNK):
            r, part = model_check_def(hists[off:off + CHUNK], switches, invariants, properties, emit)
            total.states += r.states
            total.distinct += r.distinct
            total.depth = max(total.depth, r.depth)
            total.wall += r.wall
            merged.update(part)
            if not r.ok:
                total.ok, total.violated, total.error, total.raw, total.trace = False, r.violated, r.error, r.raw, r.trace
                break
        return total, merged
    wd = tlc.scratch_dir("icv-def-")
    try:
        hfile = os.path.join(wd, "hists.ndjson")
        with open(hfile, "w") as fh:
            for h in hists:
                h.setdefault("posthoc", [])
                fh.write(json.dumps(h) + "\n")
        cfg = def_cfg(switches, DEF_INVARIANTS if invariants is None else invariants,
                      DEF_PROPERTIES if properties is None else properties, emit)
        res = tlc.run_tlc("MC_Def", cfg, wd, workers=16, env={"HISTS": hfile})
        out = {}  # type: Dict[int, Dict[int, dict]]
        for pr in res.prints:
            if isinstance(pr, dict) and "hid" in pr:
                out.setdefault(pr["hid"], {})[pr["step"]] = pr
        return res, out
    finally:
        shutil.rmtree(wd, ignore_errors=True)


# ------------------------------------------------------------------------------------------------------
class DefRuntime:
    """Executes a history on the real library."""

    def __init__(self, hist: dict, ic: Any) -> None:
        self.hist = hist
        self.ic = ic
        self.truth = {}  # type: Dict[int, bool]
        self.classes = {}  # type: Dict[int, Any]
        self.ok = {}  # type: Dict[int, bool]
        self.registered = []  # type: List[int]
        self.foreign_calls = 0
        self.evaluated = []  # type: List[int]

    def cond(self, c: int, role: str) -> Any:
        rt = self

        if role == "inv":
            def condition(self: Any) -> bool:
                rt.evaluated.append(c)
                return rt.truth.get(c, True)
        else:
            def condition() -> bool:
                rt.evaluated.append(c)
                return rt.truth.get(c, True)
        condition._icv_c = c  # type: ignore
        condition.__name__ = "cond_{}".format(c)
        return condition

    def deco(self, kind: str, c: int) -> Any:
        """The decorator object for contract c; one object per ordinal, re-used wherever the ordinal occurs again
        (positive = icontract.require(is_positive) applied to several functions shares ONE contract object)."""
        cache = self.__dict__.setdefault("_deco_cache", {})
        if (kind, c) not in cache:
            ic = self.ic
            cache[(kind, c)] = ic.require(self.cond(c, "pre")) if kind == "require" else ic.ensure(self.cond(c, "post"))
        return cache[(kind, c)]

    def foreign(self, fn: Any) -> Any:
        rt = self

        @functools.wraps(fn)
        def wrapper(*args: Any, **kwargs: Any) -> Any:
            rt.foreign_calls += 1
            return fn(*args, **kwargs)

        wrapper._icv_foreign = True  # type: ignore
        wrapper._icv_mark = wrapper  # type: ignore   # identifies THIS wrapper even after update_wrapper copies
        return wrapper

    def foreign_bare(self, fn: Any) -> Any:
        """functools.wraps(fn, updated=()): __wrapped__, name and doc are set, the attributes of fn are NOT copied."""
        rt = self

        @functools.wraps(fn, updated=())
        def wrapper(*args: Any, **kwargs: Any) -> Any:
            rt.foreign_calls += 1
            return fn(*args, **kwargs)

        wrapper._icv_foreign = True  # type: ignore
        wrapper._icv_mark = wrapper  # type: ignore
        return wrapper

    def build_member(self, m: dict) -> Any:
        ic = self.ic
        kind = m["kind"]
        if kind == "fn" and self.hist.get("async_members") and m["name"] != "__repr__":
            async def f(self: Any) -> Any:  # type: ignore
                return None
        elif kind == "pset":
            def f(self: Any, value: Any) -> Any:  # type: ignore   # the setter of the property "f"
                return None
        elif kind in ("fn", "prop"):
            def f(self: Any) -> Any:
                return None
        else:
            def f(*args: Any) -> Any:
                return None
        if m["name"] == "__repr__":
            def f(self: Any) -> Any:  # noqa
                return "K()"
        if m.get("abstract"):
            import abc
            f = abc.abstractmethod(f)                 # re-declared abstract (an interface level in the middle of a chain)
        f._icv_own = getattr(self, "_cur_k", 0)      # the class statement that defines this function
        f.__name__ = m["name"]
        f.__qualname__ = m["name"]
        f.__doc__ = "doc of " + m["name"]
        obj = f  # type: Any
        for d in m["decos"]:
            if d["d"] == "foreign":
                obj = self.foreign(obj)
            elif d["d"] == "foreign_bare":
                obj = self.foreign_bare(obj)
            elif d["d"] == "require":
                obj = self.deco("require", d["c"])(obj)
            elif d["d"] == "ensure":
                obj = self.deco("ensure", d["c"])(obj)
            elif d["d"] == "snapshot":
                cap = lambda: None  # noqa
                cap._icv_c = d["c"]  # type: ignore
                obj = ic.snapshot(cap, name="s{}".format(self.hist["con"][d["c"] - 1]["name"]))(obj)
        if m.get("precall") and kind in ("fn", "static"):
            # the decorated function is used once (as a plain function) before the class statement adopts it
            self.truth = getattr(self, "truth", {}) or {}
            out = obj(None) if kind == "fn" else obj()
            if inspect.iscoroutine(out):
                out.close()
        if kind == "prop":
            return property(obj)
        if kind == "static":
            return staticmethod(obj)
        if kind == "cls":
            return classmethod(obj)
        return obj

    def run_step(self, k: int) -> str:
        """Execute class statement k (1-based); returns "ok" or the exception class name."""
        ic = self.ic
        st = self.hist["cls"][k - 1]
        self._cur_k = k
        try:
            if st.get("clone_of"):
                # the class is re-created from the dictionary of an existing one, as dataclass(slots=True) does
                orig = self.classes[st["clone_of"]]
                nsp0 = dict(orig.__dict__)
                nsp0.pop("__dict__", None)
                nsp0.pop("__weakref__", None)
                cls = type(orig)("K{}".format(k), orig.__bases__, nsp0)
                for d in st["invs"][len(self.hist["cls"][st["clone_of"] - 1]["invs"]):]:
                    on = self.hist["con"][d["c"] - 1]["on"]
                    cls = ic.invariant(self.cond(d["c"], "inv"), check_on=getattr(ic.InvariantCheckEvent, on))(cls)
                self.classes[k] = cls
                self.ok[k] = True
                return "ok"
            nsp = {}  # type: Dict[str, Any]
            setters = {}  # type: Dict[str, Any]
            for m in st["members"]:
                if m["kind"] == "none":
                    continue              # an accessor the (re-declared) property does not have
                if m["kind"] == "pset" and m.get("share"):
                    # @Base.f.getter: the property keeps the setter object of the (first) base
                    base_prop = inspect.getattr_static(self.classes[st["bases"][0]], m["name"][:-3], None)
                    setters[m["name"][:-3]] = base_prop.fset if isinstance(base_prop, property) else None
                    continue
                if m["kind"] == "pset":
                    setters[m["name"][:-3]] = self.build_member(m)     # "fset" is the setter of property "f"
                    continue
                nsp[m["name"]] = self.build_member(m)
            for pname, fset in setters.items():
                nsp[pname] = property(nsp[pname].fget, fset)
            nsp["__module__"] = st.get("mod", "app.models")
            bases = tuple(self.classes[b] for b in st["bases"])
            if st["dbc"]:
                if not bases and (k + int(self.hist.get("hid", 0))) % 2:
                    # root classes alternate between the two documented ways: deriving from DBC, and
                    # ``class K(metaclass=icontract.DBCMeta)`` without DBC among the ancestors
                    bases = (ic.DBC,)
                cls = ic.DBCMeta("K{}".format(k), bases, nsp)
            else:
                cls = type("K{}".format(k), bases or (object,), nsp)
            for d in st["invs"]:
                on = self.hist["con"][d["c"] - 1]["on"]
                cls = ic.invariant(self.cond(d["c"], "inv"),
                                   check_on=getattr(ic.InvariantCheckEvent, on))(cls)
        except (TypeError, ValueError) as exc:
            self.ok[k] = False
            return type(exc).__name__
        self.classes[k] = cls
        self.ok[k] = True
        return "ok"

    def run_posthoc(self, ph: dict) -> str:
        """K.name = icontract.<decorator>(...)(K.name)"""
        ic = self.ic
        cls = self.classes[ph["k"]]
        d = ph["d"]
        try:
            if d["d"] in ("require_partial", "ensure_partial", "require_raw", "ensure_raw"):
                target = getattr(cls, ph["name"])
                if d["d"].endswith("_raw"):
                    # the undecorated function is given contracts a second time, independently (strict = require(c)(raw))
                    part = target
                    while hasattr(part, "__wrapped__"):
                        part = part.__wrapped__
                    part = getattr(part, "__func__", part)
                else:
                    part = functools.partial(target)
                deco = ic.require(self.cond(d["c"], "pre")) if d["d"].startswith("require") else ic.ensure(self.cond(d["c"], "post"))
                self.keep = getattr(self, "keep", []) + [deco(part)]
                return "ok"
            if d["d"] == "invariant":
                on = self.hist["con"][d["c"] - 1]["on"]
                ic.invariant(self.cond(d["c"], "inv"), check_on=getattr(ic.InvariantCheckEvent, on))(cls)
                return "ok"
            raw = inspect.getattr_static(cls, ph["name"])
            deco = ic.require(self.cond(d["c"], "pre")) if d["d"] == "require" else ic.ensure(self.cond(d["c"], "post"))
            if isinstance(raw, property):
                # K.name = property(icontract.require(...)(K.name.fget), ...)
                setattr(cls, ph["name"], property(deco(raw.fget), raw.fset, raw.fdel))
            elif isinstance(raw, staticmethod):
                setattr(cls, ph["name"], staticmethod(deco(raw.__func__)))
            elif isinstance(raw, classmethod):
                setattr(cls, ph["name"], classmethod(deco(raw.__func__)))
            else:
                setattr(cls, ph["name"], deco(getattr(cls, ph["name"])))
            return "ok"
        except (AssertionError, TypeError, ValueError) as exc:
            return type(exc).__name__

    # projection -----------------------------------------------------------------------------------
    def _ords(self, items: Any) -> List[int]:
        out = []
        for it in items:
            fn = getattr(it, "condition", None) or getattr(it, "capture", None)
            out.append(getattr(fn, "_icv_c", -1))
        return out

    def member_fn(self, cls: Any, name: str) -> Tuple[str, Any]:
        if name.endswith("set") and name != "set" and name[:-3] in self.hist["names"]:
            prop = inspect.getattr_static(cls, name[:-3], None)
            if isinstance(prop, property) and prop.fset is not None:
                return "pset", prop.fset
            return "none", None
        raw = inspect.getattr_static(cls, name, None)
        if raw is None:
            return "none", None
        if isinstance(raw, property):
            return "prop", raw.fget
        if isinstance(raw, staticmethod):
            return "static", raw.__func__
        if isinstance(raw, classmethod):
            return "cls", raw.__func__
        if inspect.isfunction(raw):
            return "fn", raw
        return "none", None

    def view(self, k: int) -> dict:
        ic = self.ic
        cls = self.classes[k]
        v = {"inv": self._ords(getattr(cls, "__invariants__", [])),
             "oncall": self._ords(getattr(cls, "__invariants_on_call__", [])),
             "onset": self._ords(getattr(cls, "__invariants_on_setattr__", [])),
             # the documented way: filter the public list by the event (tests/test_for_integrators.py)
             "doc_oncall": self._ords([i for i in getattr(cls, "__invariants__", [])
                                       if ic.InvariantCheckEvent.CALL in i.check_on]),
             "members": {}}  # type: Dict[str, Any]
        for name in self.hist["names"]:
            kind, fn = self.member_fn(cls, name)
            if fn is None:
                v["members"][name] = {"kind": "none", "pre": [], "snap": [], "post": [], "invw": False, "nchk": 0,
                                      "nfor": 0, "orig": 0}
                continue
            chk = ic._checkers.find_checker(fn)
            pre = [self._ords(g) for g in chk.__preconditions__] if chk is not None else []
            post = self._ords(chk.__postconditions__) if chk is not None else []
            snap = self._ords(chk.__postcondition_snapshots__) if chk is not None else []
            invw = ic._checkers._already_decorated_with_invariants(fn)
            facts = self.chain_facts(k, name)
            v["members"][name] = {"kind": kind, "pre": pre, "snap": snap, "post": post, "invw": bool(invw),
                                  "nchk": facts["checkers"], "nfor": facts["foreign"],
                                  "orig": self._own_of(fn)}
        return v

    @staticmethod
    def _own_of(fn: Any) -> int:
        """The class statement that defined the function at the bottom of the decorator stack."""
        cur, seen = fn, 0
        while getattr(cur, "__wrapped__", None) is not None and seen < 50:
            cur, seen = cur.__wrapped__, seen + 1
        return getattr(cur, "_icv_own", -1)

    def member_list_ids(self, k: int, name: str) -> List[int]:
        kind, fn = self.member_fn(self.classes[k], name)
        if fn is None:
            return []
        chk = self.ic._checkers.find_checker(fn)
        if chk is None:
            return []
        return [id(chk.__preconditions__), id(chk.__postcondition_snapshots__), id(chk.__postconditions__)] + \
               [id(g) for g in chk.__preconditions__]

    def alias(self, k: int) -> List[int]:
        cls = self.classes[k]
        return [id(getattr(cls, a, None)) if hasattr(cls, a) else 0
                for a in ("__invariants__", "__invariants_on_call__", "__invariants_on_setattr__")]

    def chain_facts(self, k: int, name: str) -> dict:
        """Decorator-stack facts for C14: number of checkers on the chain, foreign wrappers kept, bottom is plain."""
        cls = self.classes[k]
        kind, fn = self.member_fn(cls, name)
        ncheck = nforeign = 0
        cur = fn
        seen = 0
        while cur is not None and seen < 50:
            seen += 1
            wk = _wrapper_kind(cur)
            if wk == "chk":
                ncheck += 1
            elif vars(cur).get("_icv_mark") is cur:
                nforeign += 1
            cur = getattr(cur, "__wrapped__", None)
        return {"checkers": ncheck, "foreign": nforeign}


def _wrapper_kind(fn: Any) -> str:
    """Which of the library's closures is this function object?  (by the free variables of its code)"""
    code = getattr(fn, "__code__", None)
    if code is None or not code.co_filename.endswith("_checkers.py"):
        return "user"
    free = set(code.co_freevars)
    if "id_func" in free:
        return "chk"
    if "param_names" in free or "new_func" in free:
        return "inv"
    return "user"


def _partition(ids_per_class: List[List[int]]) -> List[Tuple[int, ...]]:
    """Canonical form of an aliasing pattern: for every (class, dunder) the index of the first equal entry."""
    flat = [x for row in ids_per_class for x in row]
    first = {}  # type: Dict[int, int]
    out = []
    for i, x in enumerate(flat):
        if x == 0:
            out.append(-1)
        else:
            out.append(first.setdefault(x, i))
    return [tuple(out)]


def normalise_model_view(v: dict, names: List[str]) -> dict:
    mem = {}
    members = v.get("members") or {}
    for name in names:
        m = members.get(name)
        if not m:
            mem[name] = {"kind": "none", "pre": [], "snap": [], "post": [], "invw": False, "nchk": 0, "nfor": 0, "orig": 0}
        else:
            mem[name] = {"kind": m["kind"], "pre": [list(g) for g in m["pre"]], "snap": list(m["snap"]),
                         "post": list(m["post"]), "invw": bool(m["invw"]), "nchk": m["nchk"], "nfor": m["nfor"],
                         "orig": m["orig"]}
    return {"inv": list(v["inv"]), "oncall": list(v["oncall"]), "onset": list(v["onset"]),
            "doc_oncall": list(v["oncall"]), "members": mem}


def replay_history(hist: dict, expected: Dict[int, dict], ic: Any) -> List[dict]:
    """Run the history on the implementation; return the list of divergences (empty = conforms)."""
    rt = DefRuntime(hist, ic)
    divergences = []
    calls = []  # type: List[Any]
    orig = ic._metaclass._register_for_hypothesis
    ic._metaclass._register_for_hypothesis = lambda cls: calls.append(cls)
    try:
        for k in range(1, len(hist["cls"]) + 1):
            outcome = rt.run_step(k)
            exp = expected.get(k)
            if exp is None:
                divergences.append({"step": k, "clause": "proto.no_expected_step", "exp": None, "act": outcome})
                break
            if outcome != exp["res"]:
                clause = "def.misuse_accepted" if outcome == "ok" else (
                    "def.rejected_wrongly" if exp["res"] == "ok" else "def.misuse_wrong_class")
                divergences.append({"step": k, "clause": clause, "exp": exp["res"], "act": outcome})
                break
            if outcome != "ok":
                break
            # every class created so far, as the introspection interface shows it now
            for j in range(1, k + 1):
                if not rt.ok.get(j):
                    continue
                act = rt.view(j)
                ex = normalise_model_view(exp["views"][j - 1], hist["names"])
                if act != ex:
                    divergences.append({"step": k, "cls": j, "clause": _view_clause(ex, act, j, k), "exp": ex, "act": act})
            act_alias = _partition([rt.alias(j) if rt.ok.get(j) else [0, 0, 0] for j in range(1, k + 1)])
            exp_alias = _partition([list(a) if rt.ok.get(j + 1) else [0, 0, 0] for j, a in enumerate(exp["alias"])])
            if act_alias != exp_alias:
                divergences.append({"step": k, "clause": "def.shared_mutable_list", "exp": exp_alias, "act": act_alias})
            if "lids" in exp:
                act_l = _partition([rt.member_list_ids(j, nm) if rt.ok.get(j) else [] for j in range(1, k + 1)
                                    for nm in hist["names"]])
                exp_l = _partition([list((exp["lids"][j - 1] or {}).get(nm, [])) if rt.ok.get(j) else []
                                    for j in range(1, k + 1) for nm in hist["names"]])
                if act_l != exp_l:
                    divergences.append({"step": k, "clause": "def.shared_mutable_list", "exp": exp_l, "act": act_l})
            reg = [int(c.__name__[1:]) for c in calls if c.__name__.startswith("K")]
            if reg != list(exp["regd"]):
                divergences.append({"step": k, "clause": "def.registered_count", "exp": list(exp["regd"]), "act": reg})
            if divergences:
                break
        # post-hoc decorations of members of the classes created above
        nst = len(hist["cls"])
        if not divergences and all(rt.ok.get(k) for k in range(1, nst + 1)):
            for i, ph in enumerate(hist.get("posthoc", []), 1):
                outcome = rt.run_posthoc(ph)
                exp = expected.get(nst + i)
                if exp is None:
                    divergences.append({"step": nst + i, "clause": "proto.no_expected_step", "exp": None, "act": outcome})
                    break
                for j in range(1, nst + 1):
                    act = rt.view(j)
                    ex = normalise_model_view(exp["views"][j - 1], hist["names"])
                    if act != ex:
                        own = (j == ph["k"]) or (ph["k"] in hist["cls"][j - 1]["mro"])
                        if ph["d"]["d"].endswith(("_partial", "_raw")):
                            own = False      # a new callable was decorated: no existing class may change at all
                        divergences.append({"step": nst + i, "cls": j,
                                            "clause": _view_clause(ex, act, j, j if own else j + 1), "exp": ex, "act": act})
                if "lids" in exp:
                    act_l = _partition([rt.member_list_ids(j, nm) for j in range(1, nst + 1) for nm in hist["names"]])
                    exp_l = _partition([list((exp["lids"][j - 1] or {}).get(nm, [])) for j in range(1, nst + 1)
                                        for nm in hist["names"]])
                    if act_l != exp_l and not divergences:
                        divergences.append({"step": nst + i, "clause": "def.shared_mutable_list", "exp": exp_l, "act": act_l})
                if divergences:
                    break
    finally:
        ic._metaclass._register_for_hypothesis = orig
    return divergences


def _view_clause(ex: dict, act: dict, j: int, k: int) -> str:
    """Name the clause of a view divergence of class j observed after statement k."""
    earlier = j < k
    for sel, clause in (("inv", "def.eff_inv_ne_ref"), ("oncall", "def.eff_inv_ne_ref"), ("onset", "def.eff_inv_ne_ref")):
        if ex[sel] != act[sel]:
            return "def.other_entity_changed" if earlier else clause
    for name, em in ex["members"].items():
        am = act["members"][name]
        if em == am:
            continue
        if earlier:
            return "def.other_entity_changed"
        if em["kind"] != am["kind"]:
            return "def.member_kind"
        if em["orig"] != am["orig"]:
            return "def.resolution"       # the name resolves to the definition of another class
        if em["pre"] != am["pre"]:
            return "def.eff_pre_ne_ref"
        if em["post"] != am["post"]:
            return "def.eff_post_ne_ref"
        if em["snap"] != am["snap"]:
            return "def.eff_snap_ne_ref"
        if em["invw"] != am["invw"]:
            return "def.wrap_missing" if em["invw"] else "def.wrap_forbidden"
        if em["nchk"] != am["nchk"]:
            return "def.second_checker"
        if em["nfor"] != am["nfor"]:
            return "def.wrapped_chain"
    return "def.view"
