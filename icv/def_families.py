"""Histories of class statements (the bounded input space of spec/ICDefine.tla)."""
import itertools
import random
from typing import Any, Dict, Iterator, List, Sequence, Tuple

SHAPES = {
    "single": [[]],
    "chain2": [[], [1]],
    "chain3": [[], [1], [2]],
    "siblings": [[], [1], [1]],
    "twobases": [[], [], [1, 2]],
    "diamond": [[], [1], [1], [2, 3]],
    "chain4": [[], [1], [2], [3]],
}
# shapes used by the mixed DBC / plain family only (kept out of SHAPES so that the other families stay as they were)
MIXED_SHAPES = {
    "mixed4": ([[], [1], [], [2, 3]], [False, False, True, True]),      # plain grand-parent, plain parent, DBC parent
    "mixed3": ([[], [], [1, 2]], [False, True, True]),
    "mixed3b": ([[], [], [2, 1]], [False, True, True]),
}

# per-class options for member "f": None = not defined here; else (npre, npost, nsnap)
MEMBER_OPTS = [None, (0, 0, 0), (1, 0, 0), (2, 0, 0), (0, 1, 0), (1, 1, 0), (0, 1, 1), (1, 1, 1)]
INV_OPTS = [[], ["CALL"], ["SETATTR"]]


def mro_of(bases_list: List[List[int]]) -> List[List[int]]:
    classes = {}  # type: Dict[int, Any]
    out = []
    for k, bases in enumerate(bases_list, 1):
        cls = type("S{}".format(k), tuple(classes[b] for b in bases) or (object,), {})
        classes[k] = cls
        out.append([int(c.__name__[1:]) for c in cls.__mro__ if c is not object])
    return out


class Builder:
    def __init__(self) -> None:
        self.con = []  # type: List[dict]

    def new(self, role: str, on: str = "CALL", name: int = 0) -> int:
        self.con.append({"role": role, "on": on, "name": name})
        return len(self.con)


def stack(b: Builder, npre: int, npost: int, nsnap: int, foreign_at: Sequence[int] = (), snap_name: int = 1) -> List[dict]:
    """Decorator stack bottom-up: postconditions, snapshots, preconditions; foreign wrappers at given positions."""
    decos = []  # type: List[dict]
    for _ in range(npost):
        decos.append({"d": "ensure", "c": b.new("post")})
    for i in range(nsnap):
        decos.append({"d": "snapshot", "c": b.new("snap", name=snap_name + i)})
    for _ in range(npre):
        decos.append({"d": "require", "c": b.new("pre")})
    for pos in sorted(foreign_at, reverse=True):
        decos.insert(min(pos, len(decos)), {"d": "foreign", "c": 0})
    return decos


def make_hist(shape: str, member_opts: Sequence[Any], inv_opts: Sequence[Sequence[str]], kind: str = "fn",
              dbc: bool = True, foreign: Sequence[Sequence[int]] = (), second: Sequence[Any] = (), tag: str = "") -> dict:
    bases_list = SHAPES[shape]
    mros = mro_of(bases_list)
    b = Builder()
    cls = []
    for k, bases in enumerate(bases_list, 1):
        members = []
        opt = member_opts[k - 1]
        if opt is not None:
            fa = foreign[k - 1] if k - 1 < len(foreign) else ()
            members.append({"name": "f", "kind": kind, "decos": stack(b, opt[0], opt[1], opt[2], fa, snap_name=k)})
        if second and second[k - 1] is not None:
            o2 = second[k - 1]
            members.append({"name": "g", "kind": "fn", "decos": stack(b, o2[0], o2[1], o2[2], (), snap_name=10 + k)})
        invs = [{"c": b.new("inv", on)} for on in inv_opts[k - 1]]
        cls.append({"bases": list(bases), "mro": mros[k - 1], "dbc": dbc, "members": members, "invs": invs,
                    "mod": "app.models"})
    return {"hid": 0, "tag": tag or shape, "names": ["f", "g"], "con": b.con, "cls": cls, "posthoc": []}


def fam_hier(tier: str, rng: random.Random) -> Iterator[dict]:
    """C04/C17/C18: inheritance DAGs x placements of pre/post/snapshot/invariants on the classes x member kind."""
    for shape, bases_list in SHAPES.items():
        n = len(bases_list)
        combos = list(itertools.product(MEMBER_OPTS, repeat=n))
        inv_combos = list(itertools.product(INV_OPTS, repeat=n))
        if tier == "quick":
            budget = {1: 10 ** 6, 2: 10 ** 6, 3: 260, 4: 160}[n]
        else:
            budget = {1: 10 ** 6, 2: 10 ** 6, 3: 4000, 4: 3000}[n]
        pairs = [(m, i) for m in combos for i in inv_combos]
        if len(pairs) > budget:
            pairs = rng.sample(pairs, budget)
        for mopts, iopts in pairs:
            kind = rng.choice(["fn", "fn", "prop", "static", "cls"])
            yield make_hist(shape, mopts, iopts, kind=kind)


def fam_inv_lists(tier: str, rng: random.Random) -> Iterator[dict]:
    """C17: invariant lists of bases, siblings and multiple inheritance with every check_on combination."""
    opts = [[], ["CALL"], ["SETATTR"], ["ALL"], ["CALL", "SETATTR"], ["SETATTR", "CALL"]]
    for shape in ("chain2", "siblings", "chain3", "twobases", "diamond"):
        n = len(SHAPES[shape])
        combos = list(itertools.product(opts, repeat=n))
        if tier == "quick" and len(combos) > 400:
            combos = rng.sample(combos, 400)
        for iopts in combos:
            member_opts = [(0, 0, 0)] + [rng.choice([None, (0, 0, 0)]) for _ in range(n - 1)]
            yield make_hist(shape, member_opts, iopts, tag="invlists-" + shape)


def fam_stacks(tier: str, rng: random.Random) -> Iterator[dict]:
    """C14/C19: decorator stacks on one function: contract decorators separated by foreign functools.wraps
    decorators, snapshots at every position (also before any postcondition), duplicate snapshot names."""
    items = ["require", "ensure", "snapshot", "foreign", "foreign_bare"]
    for n in range(1, 5 if tier == "quick" else 6):
        for combo in itertools.product(items, repeat=n):
            b = Builder()
            decos = []
            for d in combo:
                if d in ("foreign", "foreign_bare"):
                    decos.append({"d": d, "c": 0})
                elif d == "snapshot":
                    decos.append({"d": "snapshot", "c": b.new("snap", name=1 if rng.random() < 0.7 else 2)})
                else:
                    decos.append({"d": d, "c": b.new("pre" if d == "require" else "post")})
            if not b.con:
                b.new("pre")
            cls = [{"bases": [], "mro": [1], "dbc": True, "members": [{"name": "f", "kind": "fn", "decos": decos}],
                    "invs": [], "mod": "app.models"}]
            yield {"hid": 0, "tag": "stack", "names": ["f", "g"], "con": b.con, "cls": cls, "posthoc": []}


def fam_abstract(tier: str, rng: random.Random) -> Iterator[dict]:
    """C04: hierarchies in which a class in the MIDDLE of a chain re-declares a member abstract (with or without contracts
    of its own) and a class below implements it: abstractness changes nothing about the contracts that are inherited."""
    import json as _json
    n = 0
    for h in fam_hier(tier, rng):
        cls = h["cls"]
        if len(cls) < 3 or h.get("posthoc"):
            continue
        marks = []
        for k, st in enumerate(cls, 1):
            if not st["bases"] or not st["dbc"]:
                continue
            for mi, m in enumerate(st["members"]):
                if m["kind"] not in ("fn", "prop"):
                    continue
                # some class below (k in its MRO) defines the member again
                if any(k in cls[j - 1]["mro"] and j != k and any(mm["name"] == m["name"] and mm["kind"] == m["kind"]
                                                                  for mm in cls[j - 1]["members"])
                       for j in range(k + 1, len(cls) + 1)):
                    marks.append((k, mi))
        if not marks:
            continue
        q = _json.loads(_json.dumps(h))
        for k, mi in marks:
            q["cls"][k - 1]["members"][mi]["abstract"] = True
        q["tag"] = h["tag"] + "-abstract"
        n += 1
        yield q
        if n >= (400 if tier == "quick" else 4000):
            return


def number(hists: Any) -> List[dict]:
    out = []
    for i, h in enumerate(hists, 1):
        h["hid"] = i
        out.append(h)
    return out


def fam_shadow(tier: str, rng: random.Random) -> Iterator[dict]:
    """Diamonds in which one branch merely inherits a member while the other branch overrides it, with invariants
    introduced at the root or in the inheriting branch (method resolution must still find the override)."""
    for k1inv in ([], ["CALL"], ["SETATTR"]):
        for k2inv in ([], ["CALL"]):
            for m3 in ((1, 0, 0), (0, 1, 0), (1, 1, 0), (0, 0, 0)):
                for m1 in ((1, 0, 0), (0, 0, 0), (0, 1, 0)):
                    for kind in ("fn", "prop"):
                        yield make_hist("diamond", [m1, None, m3, None], [k1inv, k2inv, [], []], kind=kind, tag="shadow")


SMALL_OPTS = [None, (0, 0, 0), (1, 0, 0), (0, 1, 0)]


def fam_hier_small(tier: str, rng: random.Random) -> Iterator[dict]:
    """Every placement of {absent, bare, one precondition, one postcondition} on every class of every shape
    (exhaustive), with invariants on the root only or nowhere."""
    for shape, bases_list in SHAPES.items():
        n = len(bases_list)
        for mopts in itertools.product(SMALL_OPTS, repeat=n):
            for rootinv in ([], ["CALL"]):
                if tier == "quick" and n == 4 and rootinv and rng.random() < 0.5:
                    continue
                yield make_hist(shape, mopts, [rootinv] + [[]] * (n - 1), kind="fn", tag="small-" + shape)


def renamed(hist: dict, old: str, new: str) -> dict:
    """The same history with member `old` called `new` (e.g. a special method such as __call__)."""
    import copy
    h = copy.deepcopy(hist)
    h["names"] = [new if n == old else n for n in h["names"]]
    for c in h["cls"]:
        for m in c["members"]:
            if m["name"] == old:
                m["name"] = new
    for ph in h.get("posthoc", []):
        if ph.get("name") == old:
            ph["name"] = new
    h["tag"] = h["tag"] + "-as-" + new
    return h


def fam_dunder(tier: str, rng: random.Random) -> Iterator[dict]:
    """Special methods other than the constructors (__call__) inherit contracts and check invariants like any
    public method: the exhaustive small placements and a sample of the DAG family with the member renamed."""
    small = list(fam_hier_small(tier, rng))
    if tier == "quick":
        small = rng.sample(small, min(len(small), 220))
    for h in small:
        yield renamed(h, "f", "__call__")
    big = [h for h in fam_hier(tier, rng) if all(m["kind"] == "fn" for c in h["cls"] for m in c["members"])]
    for h in rng.sample(big, min(len(big), 100 if tier == "quick" else 1500)):
        yield renamed(h, "f", "__call__")


def fam_async_members(tier: str, rng: random.Random) -> Iterator[dict]:
    """The member is an `async def` method: contracts are inherited, groups tried and invariants selected exactly as
    for a plain method (the library has separate async twins of its wrappers)."""
    import copy
    pool = [h for h in fam_hier_small(tier, rng)]
    pool += [h for h in fam_inv_lists(tier, rng)]
    pool += [h for h in fam_hier(tier, rng) if all(m["kind"] == "fn" and not any(d["d"].startswith("foreign") for d in m["decos"])
                                                   for c in h["cls"] for m in c["members"])]
    if tier == "quick":
        pool = rng.sample(pool, min(len(pool), 350))
    for h in pool:
        if any(m["kind"] != "fn" for c in h["cls"] for m in c["members"]):
            continue
        q = copy.deepcopy(h)
        q["async_members"] = True
        q["tag"] = q["tag"] + "-async"
        yield q


def fam_precalled(tier: str, rng: random.Random) -> Iterator[dict]:
    """Every contracted function is called once as a plain function before the class statement adopts it as a
    method: what the metaclass merges into its lists afterwards must still be what the calls obey."""
    import copy
    pool = list(fam_hier_small(tier, rng))
    if tier == "quick":
        pool = rng.sample(pool, min(len(pool), 250))
    for h in pool:
        q = copy.deepcopy(h)
        for c in q["cls"]:
            for m in c["members"]:
                if m["decos"]:
                    m["precall"] = True
        q["tag"] = q["tag"] + "-precalled"
        yield q


def fam_mixed_dbc(tier: str, rng: random.Random) -> Iterator[dict]:
    """A class created through the metaclass whose bases are partly plain classes (decorated with invariants, or
    merely inheriting them from a decorated plain grand-parent): it must satisfy the invariants of ALL its ancestors."""
    for shape, (bases_list, dbcs) in MIXED_SHAPES.items():
        n = len(bases_list)
        SHAPES[shape] = bases_list
        try:
            for iopts in itertools.product([[], ["CALL"], ["SETATTR"]], repeat=n):
                if not dbcs[0] and bases_list[1] == [1] and iopts[1]:
                    continue    # decorating a plain subclass appends to the base's list (pinned behaviour, undefined)
                for mpos in range(1, n + 1):
                    mopts = [None] * n
                    mopts[mpos - 1] = (0, 0, 0)
                    h = make_hist(shape, mopts, list(iopts), kind="fn", tag="mixed-" + shape)
                    for c, d in zip(h["cls"], dbcs):
                        c["dbc"] = d
                    yield h
        finally:
            del SHAPES[shape]


def fam_accessors(tier: str, rng: random.Random) -> Iterator[dict]:
    """Properties with and without a setter along hierarchies: every accessor inherits contracts on its own - a setter
    that the ancestors do not provide may declare preconditions; a re-declared property without a setter has none."""
    opts = [None, ((0, 0, 0), None), ((0, 1, 0), None), ((0, 0, 0), (0, 0, 0)), ((0, 0, 0), (1, 0, 0)),
            ((0, 1, 0), (1, 0, 0)), ((1, 0, 0), (0, 1, 0)), ((0, 0, 0), (0, 1, 0)),
            # postconditions with snapshots on the getter / on the setter (inherited by accessors without own contracts)
            ((0, 1, 1), None), ((0, 1, 1), (0, 0, 0)), ((0, 0, 0), (0, 1, 1))]
    for shape in ("chain2", "chain3", "siblings", "twobases"):
        n = len(SHAPES[shape])
        mros = mro_of(SHAPES[shape])
        combos = list(itertools.product(opts, repeat=n))
        if tier == "quick" and len(combos) > 110:
            combos = rng.sample(combos, 110)
        if shape in ("chain2", "chain3"):
            # the subclass overrides only the getter (@Base.f.getter): the setter object is shared with the base
            shared = [((0, 0, 0), "share"), ((0, 1, 0), "share"), ((1, 0, 0), "share")]
            roots = [o for o in opts if o is not None]
            combos = combos + [tuple([r] + [rng.choice(shared) for _ in range(n - 1)]) for r in roots for _ in range(3)]
        for combo in combos:
            for rootinv in ([], ["CALL"]):
                b = Builder()
                cls = []
                for k, bases in enumerate(SHAPES[shape], 1):
                    members = []
                    o = combo[k - 1]
                    if o is not None:
                        g, st = o
                        members.append({"name": "f", "kind": "prop", "decos": stack(b, g[0], g[1], g[2], (), snap_name=k)})
                        if st == "share":
                            members.append({"name": "fset", "kind": "pset", "decos": [], "share": 1})
                        elif st is None:
                            members.append({"name": "fset", "kind": "none", "decos": []})
                        else:
                            members.append({"name": "fset", "kind": "pset",
                                            "decos": stack(b, st[0], st[1], st[2], (), snap_name=10 + k)})
                    invs = [{"c": b.new("inv", on)} for on in (rootinv if k == 1 else [])]
                    cls.append({"bases": list(bases), "mro": mros[k - 1], "dbc": True, "members": members, "invs": invs,
                                "mod": "app.models"})
                if not b.con:
                    continue
                yield {"hid": 0, "tag": "accessors-" + shape, "names": ["f", "fset"], "con": b.con, "cls": cls, "posthoc": []}


def fam_recreated(tier: str, rng: random.Random) -> Iterator[dict]:
    """A class of the hierarchy is re-created from its dictionary through its metaclass - what
    dataclasses.dataclass(slots=True) and attrs do - and optionally decorated with a further invariant: the new class
    shows the contracts of the original once, and the original (and every other class) stays as it was."""
    import copy
    pool = [h for h in fam_hier_small(tier, rng)] + [h for h in fam_inv_lists(tier, rng)]
    pool += [h for h in fam_hier(tier, rng) if not any(d["d"].startswith("foreign") for c in h["cls"] for m in c["members"]
                                                       for d in m["decos"])]
    # (the pool has ~22 000 histories at the thorough tier: 3 000 of them, each re-created with and without a further
    #  invariant)
    pool = rng.sample(pool, min(len(pool), 300 if tier == "quick" else 3000))
    for h in pool:
        n = len(h["cls"])
        j = rng.randint(1, n)
        for extra in ([], ["CALL"]):
            q = copy.deepcopy(h)
            orig = q["cls"][j - 1]
            clone = copy.deepcopy(orig)
            clone["clone_of"] = j
            clone["mro"] = [n + 1] + list(orig["mro"][1:])
            for on in extra:
                q["con"].append({"role": "inv", "on": on, "name": 0})
                clone["invs"] = list(clone["invs"]) + [{"c": len(q["con"])}]
            for c in q["cls"]:
                c.setdefault("clone_of", 0)
            q["cls"].append(clone)
            q["tag"] = q["tag"] + "-recreated"
            yield q


def fam_late_inv(tier: str, rng: random.Random) -> Iterator[dict]:
    """Classes decorated with invariants AFTER their subclasses have been created, in every order: decorating a class
    must never change what its bases or siblings check."""
    ons = ["CALL", "SETATTR", "ALL"]
    for shape in ("chain2", "chain3", "siblings"):
        n = len(SHAPES[shape])
        orders = [o for r in (1, 2, 3) for o in itertools.permutations(range(1, n + 1), r) if r <= n]
        for at_def in itertools.product([[], ["CALL"]], repeat=n):
            for order in orders:
                for _ in range(1 if tier == "quick" else 3):
                    h = make_hist(shape, [(0, 0, 0)] + [None] * (n - 1), [list(x) for x in at_def], kind="fn",
                                  tag="late-inv-" + shape)
                    h["posthoc"] = []
                    for k in order:
                        h["con"].append({"role": "inv", "on": rng.choice(ons), "name": 0})
                        h["posthoc"].append({"k": k, "name": "f", "d": {"d": "invariant", "c": len(h["con"])}})
                    yield h
        # the same class decorated twice in a row with invariants of different events (after its base was decorated)
        for at_def in ([[]] * n, [["ALL"]] + [[]] * (n - 1)):
            for k in range(2, n + 1):
                for on1, on2 in (("CALL", "SETATTR"), ("SETATTR", "CALL"), ("ALL", "CALL"), ("CALL", "CALL")):
                    for base_on in ons:
                        h = make_hist(shape, [(0, 0, 0)] + [None] * (n - 1), [list(x) for x in at_def], kind="fn",
                                      tag="late-inv-twice-" + shape)
                        h["posthoc"] = []
                        for kk, on in ((1, base_on), (k, on1), (k, on2)):
                            h["con"].append({"role": "inv", "on": on, "name": 0})
                            h["posthoc"].append({"k": kk, "name": "f", "d": {"d": "invariant", "c": len(h["con"])}})
                        yield h


def fam_shared_decos(tier: str, rng: random.Random) -> Iterator[dict]:
    """The same decorator objects (positive = icontract.require(is_positive)) are applied to the method of the base and
    to the overrides: an own group that is a proper subset of the inherited group still WEAKENS the precondition;
    an own group that lists the very same contracts is that group; a shared postcondition is one postcondition."""
    pre_sets = [[], [1], [2], [1, 2], [2, 1], [3], [1, 3]]
    post_sets = [[], [4]]
    for shape in ("chain2", "chain3", "twobases"):
        n = len(SHAPES[shape])
        mros = mro_of(SHAPES[shape])
        combos = list(itertools.product(pre_sets, repeat=n))
        if tier == "quick" and len(combos) > 150:
            combos = rng.sample(combos, 150)
        for combo in combos:
            for posts in itertools.product(post_sets, repeat=n) if n == 2 else [tuple(rng.choice(post_sets) for _ in range(n))]:
                con = [{"role": "pre", "on": "CALL", "name": 0}] * 3 + [{"role": "post", "on": "CALL", "name": 0}]
                cls = []
                for k, bases in enumerate(SHAPES[shape], 1):
                    decos = [{"d": "ensure", "c": c} for c in posts[k - 1]] + [{"d": "require", "c": c} for c in combo[k - 1]]
                    members = [{"name": "f", "kind": "fn", "decos": decos}]
                    cls.append({"bases": list(bases), "mro": mros[k - 1], "dbc": True, "members": members, "invs": [],
                                "mod": "app.models"})
                yield {"hid": 0, "tag": "shared-decos-" + shape, "names": ["f", "g"], "con": [dict(c) for c in con],
                       "cls": cls, "posthoc": []}


def fam_foreign_hier(tier: str, rng: random.Random) -> Iterator[dict]:
    """Overrides that carry foreign functools.wraps decorators above / between / below their contract decorators,
    in hierarchies (the merged contracts must land on the one real checker)."""
    for shape in ("chain2", "chain3", "twobases"):
        n = len(SHAPES[shape])
        for mopts in itertools.product([(1, 0, 0), (0, 1, 0), (1, 1, 0)], repeat=n):
            for top in range(n):
                for pos in ((99,), (0,), (1,), (0, 99)):
                    foreign = [()] * n
                    foreign[top] = pos
                    h = make_hist(shape, mopts, [[]] * n, kind="fn", foreign=foreign, tag="foreign-" + shape)
                    yield h
                    # the same with a foreign decorator that copies no attribute of what it wraps (wraps(f, updated=()))
                    import json as _json
                    q = _json.loads(_json.dumps(h))
                    for st in q["cls"]:
                        for m in st["members"]:
                            for d in m["decos"]:
                                if d["d"] == "foreign":
                                    d["d"] = "foreign_bare"
                    q["tag"] = h["tag"] + "-bare"
                    yield q


def fam_modules(tier: str, rng: random.Random) -> Iterator[dict]:
    """C18: classes created through the metaclass in modules with assorted names are announced exactly once."""
    mods = ["app.models", "icontract_hypothesis_strategies", "icontractual", "icontract", "icontract.plugins.x",
            "x.icontract._metaclass", "_metaclass", "tests.icontract._metaclass2", "icontract._metaclass"]
    for shape in ("single", "chain2", "siblings"):
        n = len(SHAPES[shape])
        for combo in itertools.product(mods, repeat=n) if n < 3 else [tuple(rng.choice(mods) for _ in range(n)) for _ in range(60)]:
            for dbc in (True, False) if n == 1 else (True,):
                h = make_hist(shape, [(1, 0, 0)] * n, [["CALL"]] + [[]] * (n - 1), dbc=dbc, tag="modules")
                for st, m in zip(h["cls"], combo):
                    st["mod"] = m
                yield h


def fam_kinds(tier: str, rng: random.Random) -> Iterator[dict]:
    """Member kinds (method, property, static method, class method) defined by a base and inherited / overridden by
    subclasses, with invariants introduced at every level: the kind of the member must stay what it was."""
    for shape in ("chain2", "chain3", "siblings"):
        n = len(SHAPES[shape])
        for kind in ("fn", "prop", "static", "cls"):
            for mopts in itertools.product([None, (0, 0, 0), (1, 0, 0), (0, 1, 0)], repeat=n - 1):
                for iopts in itertools.product([[], ["CALL"], ["ALL"]], repeat=n):
                    if tier == "quick" and n == 3 and rng.random() < 0.6:
                        continue
                    yield make_hist(shape, [(1, 1, 0)] + list(mopts), list(iopts), kind=kind, tag="kinds-" + shape)


def fam_posthoc(tier: str, rng: random.Random) -> Iterator[dict]:
    """C17: a member of an already created class is decorated after the fact (K.f = require(...)(K.f)); every other
    class - in particular the bases the member's contracts were inherited from - must stay as it was."""
    for shape in ("chain2", "chain3", "siblings", "twobases"):
        n = len(SHAPES[shape])
        for mopts in itertools.product([None, (0, 0, 0), (1, 0, 0), (0, 1, 0), (1, 1, 0)], repeat=n):
            if mopts[0] is None:
                continue
            mros = mro_of(SHAPES[shape])
            for target in range(1, n + 1):
                if mopts[target - 1] is None:
                    continue   # an inherited function object is the base's own function: decorating it IS decorating the base
                for what, kind in (("require", "fn"), ("ensure", "fn"), ("require", "prop"), ("ensure", "static"),
                                   ("require_partial", "fn"), ("ensure_partial", "static"), ("require_raw", "fn"),
                                   ("ensure_raw", "fn")):
                    h = make_hist(shape, mopts, [[]] * n, kind=kind, tag="posthoc-" + shape)
                    role = "pre" if what.startswith("require") else "post"
                    h["con"].append({"role": role, "on": "CALL", "name": 0})
                    h["posthoc"] = [{"k": target, "name": "f", "d": {"d": what, "c": len(h["con"])}}]
                    if tier == "quick" and n == 3 and rng.random() < 0.5:
                        continue
                    yield h


def fam_snap_names(tier: str, rng: random.Random) -> Iterator[dict]:
    """C08: snapshots inherited together with postconditions; the same name captured twice - by two bases, by a
    base and the override, by grand-parent and child - must be rejected when the class is created."""
    for shape in ("chain2", "chain3", "twobases", "diamond", "siblings"):
        n = len(SHAPES[shape])
        mros = mro_of(SHAPES[shape])
        for names in itertools.product([0, 1, 2], repeat=n):     # 0 = class does not define f; else the snapshot's name
            if tier == "quick" and n == 4 and rng.random() < 0.4:
                continue
            b = Builder()
            cls = []
            for k, bases in enumerate(SHAPES[shape], 1):
                members = []
                if names[k - 1]:
                    decos = [{"d": "ensure", "c": b.new("post")},
                             {"d": "snapshot", "c": b.new("snap", name=names[k - 1])}]
                    members.append({"name": "f", "kind": rng.choice(["fn", "prop"]), "decos": decos})
                cls.append({"bases": list(bases), "mro": mros[k - 1], "dbc": True, "members": members, "invs": [],
                            "mod": "app.models"})
            kinds = {m["kind"] for c in cls for m in c["members"]}
            if len(kinds) > 1:
                for c in cls:
                    for m in c["members"]:
                        m["kind"] = "fn"
            yield {"hid": 0, "tag": "snapnames-" + shape, "names": ["f", "g"], "con": b.con, "cls": cls, "posthoc": []}


def fam_wraptable(tier: str, rng: random.Random) -> Iterator[dict]:
    """C03 (member selection): which members get invariant checks - public methods, properties and dunders yes;
    _protected, __repr__, static and class methods no - for every check_on combination, on a class and on a
    subclass that inherits / overrides / adds members."""
    member_sets = [
        [("f", "fn"), ("_prot", "fn"), ("__call__", "fn"), ("__repr__", "fn")],
        [("f", "prop"), ("g", "static"), ("_prot", "fn")],
        [("f", "cls"), ("g", "fn"), ("__call__", "fn")],
    ]
    inv_opts = [[], ["CALL"], ["SETATTR"], ["ALL"], ["CALL", "SETATTR"], ["SETATTR", "CALL"]]
    for shape in ("single", "chain2", "chain3"):
        n = len(SHAPES[shape])
        mros = mro_of(SHAPES[shape])
        for ms in member_sets:
            for iopts in itertools.product(inv_opts, repeat=n):
                if tier == "quick" and n == 3 and rng.random() < 0.7:
                    continue
                for placement in itertools.product([0, 1, 2], repeat=n - 1):   # subclass: nothing / overrides all / adds g only
                    b = Builder()
                    cls = []
                    for k, bases in enumerate(SHAPES[shape], 1):
                        if k == 1:
                            here = ms
                        else:
                            pl = placement[k - 2]
                            here = [] if pl == 0 else (ms if pl == 1 else [("h", "fn")])
                        members = [{"name": nm, "kind": kd, "decos": []} for nm, kd in here]
                        invs = [{"c": b.new("inv", on)} for on in iopts[k - 1]]
                        cls.append({"bases": list(bases), "mro": mros[k - 1], "dbc": True, "members": members,
                                    "invs": invs, "mod": "app.models"})
                    if not b.con:
                        b.new("inv", "CALL")
                    yield {"hid": 0, "tag": "wraptable-" + shape, "names": ["f", "g", "h", "_prot", "__call__", "__repr__"],
                           "con": b.con, "cls": cls, "posthoc": []}
