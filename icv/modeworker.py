"""Worker for C15: replay expected event logs in THIS interpreter (started with -O / -OO by the parent)."""
import json
import os
import sys

HERE = os.path.dirname(os.path.dirname(os.path.abspath(__file__)))
sys.path.insert(0, HERE)


def main() -> None:
    from icv import callcheck as C
    ic = C.load_icontract()
    items = [json.loads(l) for l in open(sys.argv[1])]
    out = []
    for it in items:
        act, _ = C.run_impl(it["prog"], ic)
        if not C.same_log(it["expected"], act):
            out.append({"pid": it["prog"]["pid"], "log": act})
    json.dump({"debug": __debug__, "n": len(items), "mismatches": out}, sys.stdout)


if __name__ == "__main__":
    main()
