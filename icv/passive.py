"""Passive trace validation: the repository's own tests, run on the unmodified library, recorded by
icv/passive_plugin.py and validated against spec/ICCallTrace.tla, one outermost contracted call per trace."""
import json
import os
import shutil
import subprocess
import sys
from typing import Any, Dict, List, Optional, Tuple

from icv import callcheck as C
from icv import families as F
from icv import tlc
from icv.result import CheckResult, MachineryError

W = -7
TEST_DIRS = ["tests", "tests_3_6", "tests_3_7", "tests_3_8"]


def record(repo: str) -> List[dict]:
    wd = tlc.scratch_dir("icv-passive-")
    try:
        out = os.path.join(wd, "invocations.json")
        env = dict(os.environ)
        env["ICV_PASSIVE_OUT"] = out
        env["PYTHONPATH"] = tlc.VERIF + os.pathsep + env.get("PYTHONPATH", "")
        dirs = [d for d in TEST_DIRS if os.path.isdir(os.path.join(repo, d))]
        cmd = [sys.executable, "-m", "pytest", "-q", "-p", "no:cacheprovider", "-p", "icv.passive_plugin",
               "--timeout=900", "-x", "--continue-on-collection-errors", "-W", "ignore"] + dirs
        cmd.remove("-x")
        p = subprocess.run(cmd, cwd=repo, env=env, stdout=subprocess.PIPE, stderr=subprocess.STDOUT, timeout=1800)
        if not os.path.exists(out):
            raise MachineryError("passive recording produced no output: " + p.stdout.decode()[-1500:])
        with open(out) as fh:
            return json.load(fh)
    finally:
        shutil.rmtree(wd, ignore_errors=True)


def convert(inv: dict, pid: int) -> Tuple[Optional[dict], Optional[List[list]], str]:
    """One recorded invocation -> (program, compact log) in the vocabulary of ICCall, or (None, None, why skipped)."""
    if not inv["observable"]:
        return None, None, "unobservable: " + inv["why"]
    if not inv["chain"] or inv["outcome"] is None:
        return None, None, "incomplete"
    out = inv["outcome"]
    if out[0] == "raise" and out[1] == "other":
        return None, None, "library-raised or class/instance error: " + str(out[2:])
    if inv.get("body_builtin"):
        if inv["chain"][0] not in ("init", "new") or "chk" in inv["chain"]:
            return None, None, "body is a builtin (not observable)"
        # the constructor body (object.__new__ / object.__init__) runs first, then the invariants
        inv = dict(inv, events=[["body.in", 0], ["body.out", 0, "ret"]] + list(inv["events"]))
        if out[0] == "ret":
            out = ["ret", "same"]
    ncon = len(inv["con"])
    truth = [[True, True, True] for _ in range(ncon)]
    seen_inv = {}  # type: Dict[int, int]
    events = []  # type: List[list]
    nx = 0
    fault_at = 0
    body_raises = False
    chain0 = inv["chain"][0]
    is_obj = chain0 in ("inv", "init", "new")
    for ev in inv["events"]:
        e, idx = ev[0], ev[1]
        if idx < 0:
            return None, None, "one function object serves several contracts"
        if e.endswith(".in"):
            nx += 1
            if e == "body.in":
                events.append(["body.in", 1, 1, W, W, 0, "", [], 0, [-1]])
            else:
                events.append([e, 1, idx, W, W, 0, "", [W], W, [-1]])
            continue
        val = ev[2]
        what = e.split(".")[0]
        if val == "raise":
            if what == "body":
                body_raises = True
                events.append(["body.out", 1, 1, W, W, 900, "Exception", [], 0, [-1]])
            else:
                if fault_at:
                    return None, None, "several user callables raised"
                fault_at = nx
                events.append([e, 1, idx, W, W, nx, "Exception", [], 0, [-1]])
            continue
        if what == "cond":
            if val in ("awaitable", "badbool"):
                return None, None, "condition result " + val
            role = inv["con"][idx - 1]["role"]
            if role == "inv":
                k = seen_inv.get(idx, 0)
                seen_inv[idx] = k + 1
                if k > 1:
                    return None, None, "invariant evaluated more than twice"
                # first evaluation = state 1 (before the call / after construction), second = state 2 (after)
                st = 1 if (k == 0 and chain0 == "inv") else (1 if chain0 in ("init", "new") else 2)
                if chain0 == "inv" and k == 1:
                    st = 2
                truth[idx - 1][st] = (val == "T")
            else:
                truth[idx - 1][1] = (val == "T")
            events.append(["cond.out", 1, idx, W, W, 1 if val == "T" else 0, "ret", [], 0, [-1]])
        elif what == "errf":
            if val != "exc":
                return None, None, "error factory returned a non-exception"
            events.append(["errf.out", 1, idx, W, W, 1, "ret", [], 0, [-1]])
        elif what == "cap":
            events.append(["cap.out", 1, idx, W, W, W, "ret", [], 0, [-1]])
        elif what == "body":
            events.append(["body.out", 1, 1, W, W, 11, "ret", [], 0, [-1]])
    cons = [F.Con(c["role"], c["err"], False, truth[i]) for i, c in enumerate(inv["con"])]
    snps = [F.Snp(W) for _ in inv["snp"]]
    body_out = F.RaiseV("Exception", 900) if body_raises else F.RetV(11)
    fn = F.Fn("method" if is_obj else "func", 1 if is_obj else 0, bool(inv["is_async"]), inv["chain"], inv["pre"],
              inv["snap"], inv["post"], out=[body_out, body_out, body_out], setst=(1 if chain0 in ("init", "new") else 2) if is_obj else 0,
              setattr_=bool(inv["setattr"]))
    if chain0 == "init":
        fn["kind"] = "init"
    if chain0 == "new":
        fn["kind"] = "new"
    cls, obj = [], []
    if is_obj:
        c = F.Cls(inv["invs"], inv["oncall"], inv["onset"])
        cls, obj = [c], [{"cls": 1, "st0": 0 if chain0 in ("init", "new") else 1}]
    prog = F.Prog([fn], cons, snps, cls, obj, [[F.Op("call", 1, 1 if is_obj else 0, 1)]])
    prog["pid"] = pid
    prog["tag"] = "passive"
    if fault_at:
        prog["fault"] = {"at": fault_at, "kind": "Exception", "n": 0, "more": []}
    # the outcome as the caller saw it
    if out[0] == "ret":
        ret = ["ret", 1, 1, 0, 0, 11 if out[1] == "same" else -1, "ret", [], 0, [-1]]
    elif out[1] == "body":
        ret = ["ret", 1, 1, 0, 0, 900, "Exception", [], 0, [-1]]
    elif out[1] == "user":
        ret = ["ret", 1, 1, 0, 0, fault_at, "Exception", [], 0, [-1]]
    elif out[1] == "Violation":
        ret = ["ret", 1, 1, 0, 0, W, "Violation", [], 0, [-1]]
    elif out[1] in ("ErrFact", "ErrInst", "ErrClass"):
        ret = ["ret", 1, 1, 0, 0, W, out[1], [], 0, [-1]]
    else:
        return None, None, "outcome " + str(out)
    log = [["call", 1, 1, 1 if is_obj else 0, 1, 0, "", [], 0, [-1]]] + events + [ret,
           ["end", 1, 1, 0, 0, 0, "ret", [], 0, [-1]]]
    return prog, log, ""


def passive_unit(res: CheckResult, repo: str) -> None:
    """Validate the executions of the repository's own tests against the specification."""
    from icv.attribute import attribute
    from icv.checks_call import current_switches
    invs = record(repo)
    items = []
    skipped = {}  # type: Dict[str, int]
    for i, inv in enumerate(invs, 1):
        prog, log, why = convert(inv, i)
        if prog is None:
            key = why.split(":")[0]
            skipped[key] = skipped.get(key, 0) + 1
            continue
        items.append({"pid": i, "prog": prog, "log": log, "test": inv.get("test", "")})
    if len(items) < 200:
        raise MachineryError("passive unit: only {} executions could be converted ({} recorded, skipped {})".format(
            len(items), len(invs), skipped))
    rv, verdicts = C.validate_traces(items, current_switches(), False)
    if rv.error:
        raise MachineryError("passive trace validation failed: " + rv.error[:1500])
    res.states += rv.distinct
    res.transitions += rv.states
    res.traces += len(items)
    rejected = 0
    for it, vd in zip(items, verdicts):
        if vd is None:
            raise MachineryError("no verdict for passive trace {}".format(it["pid"]))
        if vd["verdict"] == "ok":
            continue
        rejected += 1
        if vd["verdict"] == "truncated":
            clause, props = "exc.dropped", {"C11"}
            vd = dict(vd, exp=["?"], act=["eot"])
        else:
            clause, props = attribute(vd, it["prog"])
        what = "test {}: expected {} but the library did {} (event {})".format(
            it["test"], vd.get("exp"), vd.get("act"), vd.get("at"))
        if res.prop in props:
            res.violation(clause, what, {"signature": clause, "unit": "passive", "program": it["prog"],
                                         "recorded": it["log"], "diagnosis": vd, "test": it["test"]})
        elif not props:
            raise MachineryError("unclassified divergence in a passive trace ({}): {}".format(clause, what))
        else:
            res.note("nonconformance outside {} (clause={} -> {}) in a passive trace of {}".format(
                res.prop, clause, ",".join(sorted(props)), it["test"]))
    if items:
        res.samples.append({"unit": "passive", "test": items[0]["test"], "events": items[0]["log"][:20]})
    res.add_unit("the repository's own tests, passively recorded (sys.monitoring), one outermost contracted call per trace",
                 recorded=len(invs), validated=len(items), rejected=rejected, skipped=skipped)
