"""Property id -> check function."""
import random
from typing import Any, Callable, Dict

from icv import callcheck as C
from icv import families as F
from icv.checks_call import call_unit, random_unit
from icv.result import CheckResult

CHECKS = {}  # type: Dict[str, Callable[[CheckResult], None]]


def check(prop: str) -> Callable:
    def deco(fn: Callable) -> Callable:
        CHECKS[prop] = fn
        return fn
    return deco


COMMON_ASSUMPTIONS = [
    "TLC/SANY and the CommunityModules Json/IOUtils are trusted",
    "CPython 3.12 semantics of calls, contextvars, coroutines; the harness renderer and drivers (icv/) are trusted",
    "bounded: all results are 'held on everything explored' inside the stated family bounds",
    "user conditions are pure apart from what their script says",
]


@check("C01")
def c01(res: CheckResult) -> None:
    ic = C.load_icontract()
    rng = random.Random(res.seed)
    res.assumptions = COMMON_ASSUMPTIONS
    call_unit(res, "pre-gate (9 kinds x 9 shapes x truth x around x sync/async x error forms)",
              list(F.fam_pre(res.tier, rng)), ic, require_outcomes=["ret", "Violation"])
    random_unit(res, "random programs beyond the exhaustive bounds", list(F.fam_random(res.tier, rng, "pre")), ic)


@check("C10")
def c10(res: CheckResult) -> None:
    ic = C.load_icontract()
    rng = random.Random(res.seed)
    res.assumptions = COMMON_ASSUMPTIONS
    call_unit(res, "re-entrant call graphs over two functions", list(F.fam_reent(res.tier, rng)), ic)
