"""Property id -> check function."""
import random
from typing import Any, Callable, Dict

from icv import callcheck as C
from icv import families as F
from icv.checks_call import call_unit, random_unit
from icv import def_families as DF
from icv.checks_def import def_unit
from icv.result import CheckResult

CHECKS = {}  # type: Dict[str, Callable[[CheckResult], None]]


def check(prop: str) -> Callable:
    def deco(fn: Callable) -> Callable:
        CHECKS[prop] = fn
        return fn
    return deco


COMMON_ASSUMPTIONS = [
    "TLC/SANY and the CommunityModules Json/IOUtils are trusted",
    "CPython 3.12 semantics of calls, contextvars, coroutines; the harness renderer and drivers (icv/) are trusted",
    "bounded: all results are 'held on everything explored' inside the stated family bounds",
    "user conditions are pure apart from what their script says",
]


def _passive(res: CheckResult) -> None:
    """The repository's own tests, passively traced and validated (code -> specification)."""
    import os
    from icv import passive
    passive.passive_unit(res, os.environ.get("ICV_REPO", "/repo"))


@check("C01")
def c01(res: CheckResult) -> None:
    ic = C.load_icontract()
    rng = random.Random(res.seed)
    res.assumptions = COMMON_ASSUMPTIONS
    call_unit(res, "stacks with a condition that cannot be evaluated unless the earlier ones hold (it raises); bodies "
                   "returning NotImplemented / False / Ellipsis / 0 / ''", list(F.fam_guarded(res.tier, rng)), ic,
              require_outcomes=["ret", "Violation", "Exception"])
    call_unit(res, "pre-gate (9 kinds x 9 shapes x truth x around x sync/async x error forms)",
              list(F.fam_pre(res.tier, rng)), ic, require_outcomes=["ret", "Violation"])
    random_unit(res, "random programs beyond the exhaustive bounds", list(F.fam_random(res.tier, rng, "pre")), ic)
    call_unit(res, "the pre-gate programs with one more class level that overrides the member without own contracts",
              F.with_bare_override(F.fam_pre(res.tier, rng), rng, 500 if res.tier == "quick" else 4000), ic)
    call_unit(res, "contract errors deriving from BaseException, the same contract violated three times in a row",
              list(F.fam_errbase(res.tier, rng)), ic)
    call_unit(res, "contract errors that are falsy objects (exception types with __bool__ / __len__)",
              list(F.fam_errfalsy(res.tier, rng)), ic)
    call_unit(res, "calls passing an unexpected keyword named like a reserved name, then ordinary calls",
              list(F.fam_badkw(res.tier, rng)), ic)
    call_unit(res, "sync / coroutine-function / coroutine-returning / awaitable-returning conditions and captures on "
                   "sync and async callables", list(F.fam_async_placements(res.tier, rng)), ic)
    # the preconditions are evaluated on the very objects the body receives (binding of the call's arguments)
    from icv import bindcheck as B
    from icv.result import MachineryError as _ME
    rb, vectors = B.model_check_bind(3, 4)
    if not rb.ok:
        raise _ME("ICBind: {}".format(rb.violated or rb.error))
    res.states += rb.distinct
    res.transitions += rb.states
    st = B.replay_vectors(res, vectors, ic, only_roles=("pre", "prekw", "predef", "prebm"))
    res.traces += st["calls"]
    res.add_unit("signatures x call shapes: what the preconditions see is what the body receives", **st)
    from icv.checks_call import conc_unit
    conc_unit(res, "concurrent asyncio callers of the same function / object (fresh / inherited contexts): every call is "
                   "gated by its own preconditions", list(F.fam_conc(res.tier, rng, True)), ic, "async",
              6 if res.tier == "quick" else 60)
    def_unit(res, "post-hoc decoration of a member of an already created class: the calls on every class obey the "
                  "effective preconditions", list(DF.fam_posthoc(res.tier, rng)), ic, verdicts=True, rng=rng)
    def_unit(res, "decorator objects shared between the method of a base and the overrides",
             list(DF.fam_shared_decos(res.tier, rng)), ic, verdicts=True, rng=rng)
    def_unit(res, "inherited precondition groups incl. overrides under foreign decorators: calls judged against the "
                  "effective DNF for all truth assignments", list(DF.fam_foreign_hier(res.tier, rng)), ic,
             verdicts=True, rng=rng)


@check("C10")
def c10(res: CheckResult) -> None:
    ic = C.load_icontract()
    rng = random.Random(res.seed)
    res.assumptions = COMMON_ASSUMPTIONS
    call_unit(res, "re-entrant call graphs over two functions", list(F.fam_reent(res.tier, rng)), ic)
    call_unit(res, "snapshot captures calling the function they belong to (directly / mutually, plain / coroutine)",
              list(F.fam_reent_cap(res.tier, rng)), ic)
    call_unit(res, "invariants / preconditions / bodies calling methods of the same and of another instance",
              list(F.fam_reent_inst(res.tier, rng)), ic)
    call_unit(res, "async public methods awaiting public methods of the same / another object",
              list(F.fam_reent_async(res.tier, rng)), ic)
    call_unit(res, "violations found by async / sync public methods, then further (non re-entrant) operations: "
                   "nothing but own re-entry may go unchecked", list(F.fam_inv_async(res.tier, rng)), ic)
    call_unit(res, "constructors / methods / conditions ending with an exception, then probes on the same object: "
                   "no later call may be mistaken for a re-entrant one",
              [p for p in F.fam_fault(res.tier, rng) if p["tag"].startswith(("fault-method", "fault2-method"))], ic)
    from icv.checks_call import conc_unit
    conc_unit(res, "calls in other asyncio tasks (fresh / inherited context, sync main program before the loop) are "
                   "not re-entrant calls", [p for p in F.fam_conc(res.tier, rng, True) if "main_sync" in p or
                                            p["tag"] == "conc-parent-suspended"], ic, "async", 6 if res.tier == "quick" else 60)


@check("C02")
def c02(res: CheckResult) -> None:
    ic = C.load_icontract()
    rng = random.Random(res.seed)
    res.assumptions = COMMON_ASSUMPTIONS
    call_unit(res, "stacks with a condition that cannot be evaluated unless the earlier ones hold (it raises); bodies "
                   "returning NotImplemented / False / Ellipsis / 0 / ''", list(F.fam_guarded(res.tier, rng)), ic,
              require_outcomes=["ret", "Violation", "Exception"])
    call_unit(res, "post-gate (kinds x stacks of 0..3 x truth x body outcomes incl. BaseException x sync/async)",
              list(F.fam_post(res.tier, rng)), ic, require_outcomes=["ret", "Violation", "KI", "Exception"])
    random_unit(res, "random programs beyond the exhaustive bounds", list(F.fam_random(res.tier, rng, "post")), ic)
    call_unit(res, "the post-gate programs with one more class level that overrides the member without own contracts",
              F.with_bare_override(F.fam_post(res.tier, rng), rng, 500 if res.tier == "quick" else 4000), ic)
    call_unit(res, "contract errors deriving from BaseException, the same contract violated three times in a row",
              list(F.fam_errbase(res.tier, rng)), ic)
    call_unit(res, "contract errors that are falsy objects (exception types with __bool__ / __len__)",
              list(F.fam_errfalsy(res.tier, rng)), ic)
    call_unit(res, "calls passing an unexpected keyword named like a reserved name, then ordinary calls",
              list(F.fam_badkw(res.tier, rng)), ic)
    call_unit(res, "sync / coroutine-function / coroutine-returning / awaitable-returning conditions and captures on "
                   "sync and async callables", list(F.fam_async_placements(res.tier, rng)), ic)
    call_unit(res, "violated postconditions whose error factory reads OLD although no condition names it",
              [p for p in F.fam_err(res.tier, rng) if p["tag"] == "err-post-noold"], ic)
    call_unit(res, "async public methods (with postconditions) awaiting public methods of the same / another object",
              list(F.fam_reent_async(res.tier, rng)), ic)
    def_unit(res, "inherited postconditions incl. overrides under foreign decorators: calls judged against the "
                  "effective conjunction for all truth assignments", list(DF.fam_foreign_hier(res.tier, rng)), ic,
             verdicts=True, rng=rng)
    def_unit(res, "special methods (__call__) inherit postconditions like any method",
             list(DF.fam_dunder(res.tier, rng)), ic, verdicts=True, rng=rng)
    def_unit(res, "properties with / without setters along hierarchies: each accessor inherits on its own",
             list(DF.fam_accessors(res.tier, rng)), ic, verdicts=True, rng=rng)
    _passive(res)


@check("C08")
def c08(res: CheckResult) -> None:
    ic = C.load_icontract()
    rng = random.Random(res.seed)
    res.assumptions = COMMON_ASSUMPTIONS
    call_unit(res, "snapshot captures calling the function they belong to (directly / mutually, plain / coroutine): each "
                   "capture still exactly once per checked call", list(F.fam_reent_cap(res.tier, rng)), ic)
    call_unit(res, "snapshots (kinds x 0..2 snapshots x 0..2 postconditions x pre outcome x capture flavour)",
              list(F.fam_snap(res.tier, rng)), ic, require_outcomes=["ret", "Violation"])
    random_unit(res, "random programs beyond the exhaustive bounds", list(F.fam_random(res.tier, rng, "snap")), ic)
    call_unit(res, "error factories reading OLD although the condition does not name it",
              [p for p in F.fam_err(res.tier, rng) if p["tag"] == "err-post-noold"], ic)
    call_unit(res, "capture flavours on sync / async callables: plain, coroutine function, coroutine-returning, several "
                   "snapshots of mixed flavours, captured values that are awaitable objects themselves",
              [p for p in F.fam_async_placements(res.tier, rng) if p["tag"].startswith("async-cap")], ic)
    call_unit(res, "overlapping calls of the same callable (recursion) with equally named snapshots whose values "
                   "depend on the argument", list(F.fam_snap_rec(res.tier, rng)), ic)
    def_unit(res, "snapshot names along hierarchies: duplicates between bases, between base and override; "
                  "snapshots placed before any postcondition", list(DF.fam_snap_names(res.tier, rng)), ic, rng=rng)
    def_unit(res, "decorator stacks: snapshots at every position", list(DF.fam_stacks(res.tier, rng)), ic, rng=rng)
    def_unit(res, "properties with / without setters along hierarchies: each accessor inherits on its own",
             list(DF.fam_accessors(res.tier, rng)), ic, verdicts=True, rng=rng)
    from icv import tablecheck as T
    T.check_misuse(res, ic, only=lambda cell: cell["d"] == "snapshot")


@check("C09")
def c09(res: CheckResult) -> None:
    ic = C.load_icontract()
    rng = random.Random(res.seed)
    res.assumptions = COMMON_ASSUMPTIONS
    call_unit(res, "error forms x roles x kinds x sync/async", list(F.fam_err(res.tier, rng)), ic,
              require_outcomes=["Violation", "ErrClass", "ErrInst", "ErrFact", "TypeError"])
    random_unit(res, "random programs beyond the exhaustive bounds", list(F.fam_random(res.tier, rng, "err")), ic)
    call_unit(res, "error factories whose parameters all carry defaults", list(F.fam_errdefaults(res.tier, rng)), ic)
    call_unit(res, "error factories that went through a functools.wraps decorator", list(F.fam_errf_wrapped(res.tier, rng)), ic)
    call_unit(res, "inherited preconditions whose errors are instances / factories, overrides called",
              list(F.fam_err_inherited(res.tier, rng)), ic)
    from icv import tablecheck as T
    T.check_misuse(res, ic, only=lambda cell: cell["m"].startswith("error_"))
    call_unit(res, "contract errors deriving from BaseException, the same contract violated three times in a row",
              list(F.fam_errbase(res.tier, rng)), ic)
    call_unit(res, "contract errors that are falsy objects (exception types with __bool__ / __len__)",
              list(F.fam_errfalsy(res.tier, rng)), ic)


@check("C16")
def c16(res: CheckResult) -> None:
    ic = C.load_icontract()
    rng = random.Random(res.seed)
    res.assumptions = COMMON_ASSUMPTIONS
    call_unit(res, "stacks with a condition that cannot be evaluated unless the earlier ones hold (it raises); bodies "
                   "returning NotImplemented / False / Ellipsis / 0 / ''", list(F.fam_guarded(res.tier, rng)), ic,
              require_outcomes=["ret", "Violation", "Exception"])
    call_unit(res, "several falsy contracts (groups, stacks, levels) x all truth assignments",
              list(F.fam_order(res.tier, rng)), ic, require_outcomes=["Violation", "ErrInst", "ErrFact"])
    call_unit(res, "sequences of calls with different arguments on callables with several precondition groups",
              list(F.fam_order_seq(res.tier, rng)), ic)
    call_unit(res, "the order programs with one more class level that overrides the member without own contracts",
              F.with_bare_override(F.fam_order(res.tier, rng), rng, 500 if res.tier == "quick" else 4000), ic)
    call_unit(res, "coroutine functions mixing plain and coroutine-function conditions",
              list(F.fam_order_mixed_async(res.tier, rng)), ic)
    call_unit(res, "precondition groups whose conditions configure their errors differently (explicit error in an earlier "
                   "group, default in the last, and vice versa)", list(F.fam_order_forms(res.tier, rng)), ic,
              require_outcomes=["Violation", "ErrInst", "ErrClass"])
    def_unit(res, "invariants accumulated along hierarchies incl. diamonds: the first falsy one in the order base before "
                  "derived is blamed", list(DF.fam_inv_lists(res.tier, rng)), ic, verdicts=True, rng=rng)
    def_unit(res, "overrides carrying foreign functools.wraps decorators in hierarchies: inherited groups first, the error "
                  "of the last group tried", list(DF.fam_foreign_hier(res.tier, rng)), ic, verdicts=True, rng=rng)
    def_unit(res, "property accessors along hierarchies: inherited postconditions before the own ones, the first falsy one "
                  "is blamed", list(DF.fam_accessors(res.tier, rng)), ic, verdicts=True, rng=rng)
    setattr_progs = [p for p in F.fam_inv(res.tier, rng) if any(f["kind"] == "setattr" for f in p["fn"])]
    rng.shuffle(setattr_progs)
    call_unit(res, "assignments under SETATTR invariants (own __setattr__): invariants-before, body, invariants-after",
              setattr_progs[:500 if res.tier == "quick" else 5000], ic)
    # a violated lambda condition is re-evaluated once for the message: every operand at most once more
    from icv import exprcheck as E
    cases = E.make_cases(E.fam_typeof(rng), rng, envs_per_expr=0)
    r, viol, py = E.model_check_expr(cases)
    if not r.ok:
        from icv.result import MachineryError
        raise MachineryError("ICExpr: {}".format(r.violated or r.error))
    res.states += r.distinct
    res.transitions += r.states
    st = E.check_cases(res, EXPR_CLAUSES, cases, viol, py, ic)
    res.traces += st["cases"]
    res.add_unit("comparison chains over calls: operands evaluated at most once while the message is built", **st)
    random_unit(res, "random programs beyond the exhaustive bounds", list(F.fam_random(res.tier, rng, "order")), ic)
    _passive(res)


@check("C03")
def c03(res: CheckResult) -> None:
    ic = C.load_icontract()
    rng = random.Random(res.seed)
    res.assumptions = COMMON_ASSUMPTIONS
    call_unit(res, "invariants around operations (member kinds x check_on x operation sequences x state flips)",
              list(F.fam_inv(res.tier, rng)), ic, require_outcomes=["ret", "Violation"])
    call_unit(res, "async and sync public methods mixed; operation sequences", list(F.fam_inv_async(res.tier, rng)), ic)
    late = list(F.with_late_members(list(F.fam_inv(res.tier, rng)) + list(F.fam_inv_async(res.tier, rng))))
    rng.shuffle(late)
    call_unit(res, "public methods added by a class decorator placed between two invariant decorators",
              late[:400 if res.tier == "quick" else 4000], ic, require_outcomes=["ret", "Violation"])
    via_alias = list(F.with_defs_via_alias(list(F.fam_inv(res.tier, rng)) + list(F.fam_inv_sub(res.tier, rng))))
    rng.shuffle(via_alias)
    call_unit(res, "the constructor / __setattr__ written under an ordinary name and bound to the special name in the class body",
              via_alias[:500 if res.tier == "quick" else 5000], ic, require_outcomes=["ret", "Violation"])
    call_unit(res, "the constructor bound under a second, public name (reset = __init__) is a public method",
              list(F.fam_ctor_alias(res.tier, rng)), ic, require_outcomes=["ret", "Violation"])
    call_unit(res, "subclass constructors calling the base constructor; members added by the subclass",
              list(F.fam_inv_sub(res.tier, rng)), ic, require_outcomes=["ret", "Violation"])
    call_unit(res, "contract errors deriving from BaseException, the same contract violated three times in a row",
              list(F.fam_errbase(res.tier, rng)), ic)
    call_unit(res, "contract errors that are falsy objects (exception types with __bool__ / __len__)",
              list(F.fam_errfalsy(res.tier, rng)), ic)
    from icv import tablecheck as T
    T.check_calls(res, ic, only=lambda cell: cell["shape"].startswith("builtin_"))
    def_unit(res, "member selection: which members of a class / subclass carry invariant checks, per check_on combination",
             list(DF.fam_wraptable(res.tier, rng)), ic, rng=rng)
    def_unit(res, "member kinds (method, property, static, class method) inherited / overridden under invariants",
             list(DF.fam_kinds(res.tier, rng)), ic, rng=rng)
    def_unit(res, "classes created through the metaclass with plain (decorated / merely inheriting) bases: the "
                  "invariants of all ancestors are checked", list(DF.fam_mixed_dbc(res.tier, rng)), ic, verdicts=True, rng=rng)


@check("C11")
def c11(res: CheckResult) -> None:
    ic = C.load_icontract()
    rng = random.Random(res.seed)
    res.assumptions = COMMON_ASSUMPTIONS
    call_unit(res, "a fault of every kind at every crossing of a checked call, then probes",
              list(F.fam_fault(res.tier, rng)), ic, require_outcomes=["ret", "Violation", "KI", "Exception"])
    call_unit(res, "public methods / setters / __setattr__ that leave the invariant broken and raise: the body's exception "
                   "reaches the caller", list(F.fam_break_raise(res.tier, rng)), ic, require_outcomes=["Exception", "KI", "Violation"])
    call_unit(res, "cancellation / close at every suspension point of an async call, then a probe",
              list(F.fam_cancel(res.tier, rng)), ic, require_outcomes=["ret", "Cancelled"])
    call_unit(res, "nested constructor calls (super().__init__) returning inside a running constructor: the suspension "
                   "state is what it was before the nested call", list(F.fam_inv_sub(res.tier, rng)), ic)
    call_unit(res, "violations found by async and sync public methods, then further operations on the same object",
              list(F.fam_inv_async(res.tier, rng)), ic)
    call_unit(res, "contract errors deriving from BaseException, the same contract violated three times in a row",
              list(F.fam_errbase(res.tier, rng)), ic)
    call_unit(res, "contract errors that are falsy objects (exception types with __bool__ / __len__)",
              list(F.fam_errfalsy(res.tier, rng)), ic)
    call_unit(res, "calls passing an unexpected keyword named like a reserved name, then ordinary calls",
              list(F.fam_badkw(res.tier, rng)), ic)
    call_unit(res, "sync / coroutine-function / coroutine-returning / awaitable-returning conditions and captures on "
                   "sync and async callables", list(F.fam_async_placements(res.tier, rng)), ic)


@check("C12")
def c12(res: CheckResult) -> None:
    from icv.checks_call import conc_unit
    ic = C.load_icontract()
    rng = random.Random(res.seed)
    res.assumptions = COMMON_ASSUMPTIONS + [
        "interleavings are exhaustive at the granularity of library/user crossings (a turn is silent* ; event); "
        "preemption at arbitrary lines inside library code is sampled (seeded), not exhaustive"]
    nsim = 12 if res.tier == "quick" else 120
    conc_unit(res, "thread-like tasks: 2-3 concurrent calls x context modes x all interleavings",
              list(F.fam_conc(res.tier, rng, False)), ic, "thread", nsim)
    conc_unit(res, "asyncio-like tasks: 2-3 concurrent async calls x context modes x all suspension interleavings",
              list(F.fam_conc(res.tier, rng, True)), ic, "async", nsim)
    conc_unit(res, "asyncio-like tasks in a fresh interpreter that imports icontract BEFORE asyncio",
              [p for p in F.fam_conc(res.tier, rng, True) if p["tag"].startswith(("conc-func", "conc-method", "conc-parent"))],
              ic, "async", max(2, nsim // 3), fresh_interpreter=True)
    # code -> specification under schedules finer than the specification's turn: threads preempted at random lines
    # INSIDE the library (sys.settrace), every recorded trace validated by ICCallTrace
    import copy
    reps = 4 if res.tier == "quick" else 40
    random_unit(res, "threads preempted at line granularity inside library code (random schedules), traces validated",
                [copy.deepcopy(p) for p in F.fam_conc(res.tier, rng, False) for _ in range(reps)], ic,
                mode="thread-preempt", rng=rng)


@check("C13")
def c13(res: CheckResult) -> None:
    from icv.checks_call import pair_unit
    ic = C.load_icontract()
    rng = random.Random(res.seed)
    res.assumptions = COMMON_ASSUMPTIONS
    call_unit(res, "async/sync conditions and captures on sync/async callables (all placements)",
              list(F.fam_async_placements(res.tier, rng)), ic, require_outcomes=["ret", "ValueError", "ErrFact"])
    call_unit(res, "async and sync public methods of a class with invariants; operation sequences",
              list(F.fam_inv_async(res.tier, rng)), ic)
    call_unit(res, "async public methods awaiting public methods of the same / another object",
              list(F.fam_reent_async(res.tier, rng)), ic)
    pairs = [p for p in F.fam_pre(res.tier, rng) if not any(f["async"] for f in p["fn"])]
    pairs += [p for p in F.fam_post(res.tier, rng) if not any(f["async"] for f in p["fn"])]
    pairs += [p for p in F.fam_order(res.tier, rng) if not any(f["async"] for f in p["fn"])]
    pairs += [p for p in F.fam_err(res.tier, rng) if not any(f["async"] for f in p["fn"])]
    if res.tier == "quick":
        rng.shuffle(pairs)
        pairs = pairs[:2500]
    pair_unit(res, "programs of C01/C02/C09/C16 rendered with def and with async def", pairs, ic)
    # the misuse table on coroutine functions / async methods: reserved names are reported at the same moment and in the
    # same way as on the sync twins (e.g. before any precondition is evaluated)
    from icv import tablecheck as T
    T.check_misuse(res, ic, only=lambda cell: cell["c"] in ("async_function", "async_method"))
    # argument resolution of the async wrapper: the preconditions of a coroutine function see what its body receives, for
    # every signature x call shape of ICBind
    from icv import bindcheck as B
    from icv.result import MachineryError
    r, vectors = B.model_check_bind(4, 5)
    if not r.ok:
        raise MachineryError("ICBind: {}".format(r.violated or r.error))
    res.states += r.distinct
    res.transitions += r.states
    stats = B.replay_vectors(res, vectors, ic, only_roles={"pre_async"})
    res.traces += stats["calls"]
    res.add_unit("signatures x call shapes on coroutine functions (preconditions)", **stats)


# ---- definition-time machine ---------------------------------------------------------------------------
from icv import def_families as DF  # noqa
from icv.checks_def import def_unit  # noqa

DEF_ASSUMPTIONS = COMMON_ASSUMPTIONS + [
    "method resolution orders are supplied to the specification by CPython (C3 linearisation is trusted, "
    "cross-checked against cls.__mro__)",
    "subclassing is exercised through DBC/DBCMeta only (the documentation declares inheritance without it undefined)"]


@check("C04")
def c04(res: CheckResult) -> None:
    ic = C.load_icontract()
    rng = random.Random(res.seed)
    res.assumptions = DEF_ASSUMPTIONS
    def_unit(res, "inheritance DAGs (chains, gaps, siblings, two bases, diamond) x contract placements x member kinds",
             list(DF.fam_hier(res.tier, rng)), ic, verdicts=True, rng=rng)
    def_unit(res, "diamonds where one branch inherits and the other overrides, invariants introduced at different levels",
             list(DF.fam_shadow(res.tier, rng)), ic, verdicts=True, rng=rng)
    def_unit(res, "a class in the middle of a chain re-declares the member abstract, a class below implements it",
             list(DF.fam_abstract(res.tier, rng)), ic, verdicts=True, rng=rng)
    def_unit(res, "every placement of {absent, bare, pre, post} on every class of every shape (exhaustive)",
             list(DF.fam_hier_small(res.tier, rng)), ic, verdicts=True, rng=rng)
    def_unit(res, "special methods (__call__) in hierarchies: contracts inherited and invariants checked like public methods",
             list(DF.fam_dunder(res.tier, rng)), ic, verdicts=True, rng=rng)
    def_unit(res, "async def members in hierarchies and under invariants of every check_on combination",
             list(DF.fam_async_members(res.tier, rng)), ic, verdicts=True, rng=rng)
    def_unit(res, "properties with / without setters along hierarchies: each accessor inherits on its own",
             list(DF.fam_accessors(res.tier, rng)), ic, verdicts=True, rng=rng)
    def_unit(res, "decorator objects shared between the method of a base and the overrides",
             list(DF.fam_shared_decos(res.tier, rng)), ic, verdicts=True, rng=rng)
    def_unit(res, "overrides carrying foreign functools.wraps decorators in hierarchies",
             list(DF.fam_foreign_hier(res.tier, rng)), ic, verdicts=True, rng=rng)
    def_unit(res, "invariant lists along definition histories (every check_on combination): which members check them",
             list(DF.fam_inv_lists(res.tier, rng)), ic, verdicts=True, rng=rng)
    def_unit(res, "wrap table: which members of a class and of its sub-classes check the accumulated invariants",
             list(DF.fam_wraptable(res.tier, rng)), ic, rng=rng)
    def_unit(res, "classes created through the metaclass with plain (decorated / merely inheriting) bases",
             list(DF.fam_mixed_dbc(res.tier, rng)), ic, verdicts=True, rng=rng)


@check("C17")
def c17(res: CheckResult) -> None:
    ic = C.load_icontract()
    rng = random.Random(res.seed)
    res.assumptions = DEF_ASSUMPTIONS
    def_unit(res, "invariant lists along definition histories (every check_on combination)",
             list(DF.fam_inv_lists(res.tier, rng)), ic, rng=rng)
    def_unit(res, "inheritance DAGs x contract placements: every earlier class re-projected after each step",
             list(DF.fam_hier(res.tier, rng)), ic, rng=rng)
    def_unit(res, "post-hoc decoration of a member of an already created class (K.f = require(..)(K.f))",
             list(DF.fam_posthoc(res.tier, rng)), ic, verdicts=True, rng=rng)
    def_unit(res, "classes re-created from their dictionary through the metaclass (dataclass(slots=True), attrs), then decorated",
             list(DF.fam_recreated(res.tier, rng)), ic, verdicts=True, rng=rng)
    def_unit(res, "every placement of {absent, bare, pre, post} on every class of every shape (exhaustive)",
             list(DF.fam_hier_small(res.tier, rng)), ic, rng=rng)
    def_unit(res, "classes decorated with invariants after their subclasses have been created, in every order",
             list(DF.fam_late_inv(res.tier, rng)), ic, verdicts=True, rng=rng)
    def_unit(res, "properties re-declared with some accessors (also @Base.f.getter, which shares the setter object with the base)",
             list(DF.fam_accessors(res.tier, rng)), ic, verdicts=True, rng=rng)


@check("C18")
def c18(res: CheckResult) -> None:
    ic = C.load_icontract()
    rng = random.Random(res.seed)
    res.assumptions = DEF_ASSUMPTIONS
    def_unit(res, "introspected lists = effective contracts; hand evaluation of the lists vs real calls (all truth "
                  "assignments); registration hook", list(DF.fam_hier(res.tier, rng)), ic, verdicts=True, rng=rng)
    def_unit(res, "decorator stacks with foreign wrappers: one checker, lists readable through the stack",
             list(DF.fam_stacks(res.tier, rng)), ic, verdicts=True, rng=rng)
    def_unit(res, "overrides carrying foreign functools.wraps decorators in hierarchies",
             list(DF.fam_foreign_hier(res.tier, rng)), ic, verdicts=True, rng=rng)
    def_unit(res, "invariant lists along definition histories (every check_on combination), hand evaluation vs calls",
             list(DF.fam_inv_lists(res.tier, rng)), ic, verdicts=True, rng=rng)
    def_unit(res, "async def members in hierarchies and under invariants of every check_on combination",
             list(DF.fam_async_members(res.tier, rng)), ic, verdicts=True, rng=rng)
    def_unit(res, "special methods (__call__) in hierarchies", list(DF.fam_dunder(res.tier, rng)), ic, verdicts=True, rng=rng)
    def_unit(res, "functions called once before a class statement adopts them as methods",
             list(DF.fam_precalled(res.tier, rng)), ic, verdicts=True, rng=rng)
    def_unit(res, "classes re-created from their dictionary through the metaclass (dataclass(slots=True), attrs), then decorated",
             list(DF.fam_recreated(res.tier, rng)), ic, verdicts=True, rng=rng)
    def_unit(res, "registration hook: classes in modules with assorted names, with and without the metaclass",
             list(DF.fam_modules(res.tier, rng)), ic, rng=rng)


@check("C05")
def c05(res: CheckResult) -> None:
    from icv import bindcheck as B
    from icv.result import MachineryError
    ic = C.load_icontract()
    res.assumptions = COMMON_ASSUMPTIONS + [
        "what a contract receives for the variadic parameter's OWN name (args / kwargs) is a don't-care: the property "
        "speaks of non-variadic parameters and two baseline tests pin the legacy value there",
        "the specification's Bind is cross-checked against CPython's binding of the very same call on every state"]
    mp, mpos = (4, 5) if res.tier == "quick" else (5, 6)
    r, vectors = B.model_check_bind(mp, mpos)
    if not r.ok:
        raise MachineryError("ICBind: the switch-off specification fails BindAgree: {}".format(r.violated or r.error))
    res.states += r.distinct
    res.transitions += r.states
    stats = B.replay_vectors(res, vectors, ic)
    if stats["bindable"] < 1000 and not res.violations:
        raise MachineryError("ICBind: vacuous ({} bindable calls)".format(stats["bindable"]))
    res.traces += stats["calls"]
    res.evaluations += stats["values_compared"]
    res.samples += vectors[1000:1003]
    res.coverage_extra["exhaustive"] = True
    res.add_unit("signatures x call shapes", max_params=mp, max_positionals=mpos, **stats)
    rng = random.Random(res.seed)
    call_unit(res, "overlapping calls of one callable with different arguments (recursion): every call's contracts see ITS "
                   "arguments", list(F.fam_rec_args(res.tier, rng)) + list(F.fam_snap_rec(res.tier, rng)), ic)


# ---- violation messages ----------------------------------------------------------------------------------
EXPR_CLAUSES = {"msg.depends_on_earlier_calls": {"C20", "C06", "C07"}, "msg.operand_evaluated_again": {"C16", "C07"}, "msg.replaced_by_other_exception": {"C07"}, "msg.text": {"C07"}, "msg.header": {"C07"},
                "msg.layout_differs": {"C07"}, "msg.touched_skipped_node": {"C07"},
                "msg.value_missing": {"C06"}, "msg.value_unsound": {"C06"}, "msg.unsorted": {"C20"}}
EXPR_ASSUMPTIONS = COMMON_ASSUMPTIONS + [
    "values come from CPython: the specification's model of Python evaluation (Eval) is cross-checked against CPython "
    "on every case (verdict, evaluated nodes, value); a disagreement is a machinery failure, not a violation",
    "core grammar: constants, names, not, unary minus, calls (user function, builtin), subscript, attribute, is None, "
    "+, //, and/or (2-3 operands), <, ==, in, chained <, conditional expression; other forms are outside the "
    "exhaustive families",
    "completeness of the listed values is claimed only when no name is bound to None (the property's own exclusion)"]


def _expr_run(res: CheckResult, layouts: bool) -> None:
    from icv import exprcheck as E
    from icv.result import MachineryError
    ic = C.load_icontract()
    rng = random.Random(res.seed)
    res.assumptions = EXPR_ASSUMPTIONS
    budget = 2500 if res.tier == "quick" else 12000
    fams = [("all expressions of depth <= 1 x all environments", E.fam_depth1(), 0),
            ("calls / subscripts / attributes / operators over boolean, conditional and comparison sub-expressions",
             E.fam_nested(rng, budget), 10 if res.tier == "quick" else 24),
            ("guard patterns (later operands defined only if earlier ones hold)", E.fam_guards(rng, budget),
             10 if res.tier == "quick" else 24),
            ("calls returning classes; comparison chains over calls", E.fam_typeof(rng), 0),
            ("a variable named like a builtin and bound to None, behind guards", E.fam_builtin_named(), 0),
            ("formatted string literals over values that format unlike str()", E.fam_fstr(), 0),
            ("a quantifier with nested loop targets: the example names every loop variable", E.fam_all_nest(), 0)]
    for name, exprs, per in fams:
        cases = E.make_cases(exprs, rng, envs_per_expr=per)
        r, viol, py = E.model_check_expr(cases)
        if not r.ok:
            raise MachineryError("ICExpr: the switch-off specification fails {}: {}".format(r.violated, (r.error or "")[:800]))
        res.states += r.distinct
        res.transitions += r.states
        if any(nd["k"] == "fstr" for e in exprs for nd in e):
            # known finding F34: the implementation must conform to the model with SwFStringOpaque on (any OTHER
            # deviation is still reported); the obligations were just checked with the switch off; with it on TLC
            # returns the counterexample that the KNOWN-FINDING line reports
            from icv.result import load_known
            kf = [k for k in load_known() if k.get("status") == "known" and k.get("eswitch") == "SwFStringOpaque"]
            if kf:
                r_on, viol, py = E.model_check_expr(cases, sw_fstr=True, invariants=[i for i in E.EXPR_INVARIANTS if i != "ShownComplete"])
                if not r_on.ok:
                    raise MachineryError("ICExpr with SwFStringOpaque: {}".format(r_on.violated or r_on.error))
                r_cx, _, _ = E.model_check_expr(cases, sw_fstr=True, invariants=["ShownComplete"], emit=False)
                if r_cx.ok or r_cx.violated != "ShownComplete":
                    raise MachineryError("SwFStringOpaque does not reproduce the known finding: {}".format(r_cx.violated or r_cx.error))
                for k in kf:
                    if res.prop in [k["property"]] + k.get("also", []):
                        res.known(k["signature"], "{} [model-level counterexample: obligation ShownComplete fails with "
                                                  "SwFStringOpaque=TRUE]".format(k["what"]))
        st = E.check_cases(res, EXPR_CLAUSES, cases, viol, py, ic)
        if st["violated"] < 100 and not res.violations:
            raise MachineryError("ICExpr family {} is vacuous".format(name))
        if st.get("complete_claimed", 0) < 50 and not res.violations and "bound to None" not in name:
            raise MachineryError("ICExpr family {}: the completeness clause is vacuous (its antecedent - a violated "
                                 "condition none of whose names is bound to None - holds in {} cases)".format(
                                     name, st.get("complete_claimed", 0)))
        res.traces += st["cases"]
        res.evaluations += st["lines_compared"]
        if not res.violations:
            # the same cases as postconditions and on coroutine functions (every call argument is listed there too)
            sub = cases if len(cases) <= 1500 else rng.sample(cases, 1500)
            for role in ("ensure", "require_async", "ensure_async"):
                st2 = E.check_cases(res, EXPR_CLAUSES, sub, viol, py, ic, role=role)
                st["cases_" + role] = st2["cases"]
                res.traces += st2["cases"]
                res.evaluations += st2["lines_compared"]
        if layouts and not res.violations:
            st.update(E.check_layouts(res, EXPR_CLAUSES, cases, viol, ic, rng, 12 if res.tier == "quick" else 60))
            res.traces += st.get("layout_cases", 0)
        res.add_unit(name, expressions=len(exprs), **st)
        if viol:
            k = sorted(viol)[len(viol) // 2]
            c = next(c for c in cases if c["cid"] == k)
            tree, _ = E.parse(c["expr"])
            res.samples.append({"condition": E.render(tree), "env": c["env"], "expected": viol[k]})
        if res.violations:
            break


@check("C06")
def c06(res: CheckResult) -> None:
    _expr_run(res, layouts=False)
    if not res.violations:
        # "the configured repr of exactly the value": value lines and the quantifier's example rendered through the
        # contract's own a_repr (sizes around its limits); only this clause of the message cases is C06's
        from icv import msgcheck as M
        M.check_messages(res, res.tier, random.Random(res.seed), only_clauses={"msg.repr_not_contracts"},
                         flavours={"quant", "lambda"})


@check("C07")
def c07(res: CheckResult) -> None:
    _expr_run(res, layouts=True)
    if not res.violations:
        ic = C.load_icontract()
        rng = random.Random(res.seed)
        call_unit(res, "several precondition groups, a later condition asks for _ARGS: the violation of an earlier "
                       "group (whose message is built) must not disturb it", list(F.fam_wants_args(res.tier, rng)), ic)
        call_unit(res, "violations whose error is built by a factory / class / instance (every role, sync and async): the "
                       "configured error reaches the caller, never an error of the library",
                  [p for p in F.fam_err(res.tier, rng) if p["tag"].startswith("err-")], ic)


@check("C20")
def c20(res: CheckResult) -> None:
    from icv import msgcheck as M
    rng = random.Random(res.seed)
    res.assumptions = COMMON_ASSUMPTIONS + [
        "reprlib (standard library) is the trusted renderer: a value line must equal contract_a_repr.repr(value)",
        "LeftOut is applied to names, attributes and arguments the condition references; the result of a call or "
        "subscript is a computed value that C06 requires to be listed"]
    M.check_messages(res, res.tier, rng)
    M.check_multiline_keys(res)
    # sortedness and determinism of the recomputed value lines is also part of the expression families
    _expr_run_c20(res)


def _expr_run_c20(res: CheckResult) -> None:
    from icv import exprcheck as E
    from icv.result import MachineryError
    ic = C.load_icontract()
    rng = random.Random(res.seed + 7)
    exprs = E.fam_nested(rng, 600 if res.tier == "quick" else 4000)
    cases = E.make_cases(exprs, rng, envs_per_expr=6)
    r, viol, py = E.model_check_expr(cases)
    if not r.ok:
        raise MachineryError("ICExpr: {}".format(r.violated or r.error))
    res.states += r.distinct
    res.transitions += r.states
    st = E.check_cases(res, EXPR_CLAUSES, cases, viol, py, ic)
    res.traces += st["cases"]
    res.add_unit("value lines of recomputed sub-expressions are sorted by expression text", **st)


@check("C19")
def c19(res: CheckResult) -> None:
    from icv import tablecheck as T
    ic = C.load_icontract()
    rng = random.Random(res.seed)
    res.assumptions = COMMON_ASSUMPTIONS
    T.check_misuse(res, ic)
    def_unit(res, "decorator stacks: snapshots at every position (also before any postcondition), duplicate names",
             list(DF.fam_stacks(res.tier, rng)), ic, rng=rng)


@check("C14")
def c14(res: CheckResult) -> None:
    from icv import tablecheck as T
    ic = C.load_icontract()
    rng = random.Random(res.seed)
    res.assumptions = DEF_ASSUMPTIONS + [
        "metadata preservation is decided over an explicit attribute list (name, qualname, doc, module, annotations, "
        "signature, abstractness, coroutine-ness, __wrapped__)"]
    T.check_ctor(res, ic)
    T.check_meta(res, ic)
    T.check_calls(res, ic)
    # a parameter named result / OLD is an ordinary parameter where there is no postcondition
    T.check_misuse(res, ic, only=lambda cell: cell["d"] == "require" and (cell["m"].startswith(("param_result", "param_OLD"))
                                                                         or cell["m"] in ("kw_result", "kw_OLD")))
    def_unit(res, "decorator stacks with foreign wrappers: one checker, no decorator lost, original reachable",
             list(DF.fam_stacks(res.tier, rng)), ic, rng=rng)
    def_unit(res, "overrides carrying foreign functools.wraps decorators in hierarchies",
             list(DF.fam_foreign_hier(res.tier, rng)), ic, verdicts=True, rng=rng)
    def_unit(res, "diamonds: method resolution of classes with invariants equals that of the bare classes",
             list(DF.fam_shadow(res.tier, rng)), ic, rng=rng)
    def_unit(res, "member kinds (method, property, static, class method) inherited / overridden under invariants",
             list(DF.fam_kinds(res.tier, rng)), ic, verdicts=True, rng=rng)
    call_unit(res, "async public methods awaiting public methods of the same / another object: values come back",
              list(F.fam_reent_async(res.tier, rng)), ic)
    progs = [p for p in F.fam_pre(res.tier, rng)
             if all(all(c["truth"]) for c in p["con"])]
    call_unit(res, "satisfied contracts: identity of arguments at the body and of results / exceptions at the caller",
              progs, ic, require_outcomes=["ret"])
    call_unit(res, "bodies raising every exception kind through satisfied contracts",
              [p for p in F.fam_post(res.tier, rng) if all(all(c["truth"]) for c in p["con"])], ic,
              require_outcomes=["ret", "KI", "Exception"])


@check("C15")
def c15(res: CheckResult) -> None:
    from icv import tablecheck as T
    import os
    res.assumptions = COMMON_ASSUMPTIONS + ["three interpreter modes (normal, -O, -OO) x ICONTRACT_SLOW in {unset, empty, "
                                            "non-empty}: one interpreter per pair; other interpreter flags are out of scope"]
    T.check_config(res, os.environ.get("ICV_REPO", "/repo"))
    rng = random.Random(res.seed)
    progs = list(F.fam_snap(res.tier, rng)) + list(F.fam_err(res.tier, rng))
    more = list(F.fam_pre(res.tier, rng)) + list(F.fam_inv(res.tier, rng)) + list(F.fam_order(res.tier, rng))
    rng.shuffle(more)
    progs += more[:600 if res.tier == "quick" else 6000]
    T.check_modes_behaviour(res, progs, os.environ.get("ICV_REPO", "/repo"))
