"""Families of programs (the bounded input spaces the model checker and the replay enumerate)."""
import itertools
import random
from typing import Any, Dict, Iterable, Iterator, List, Optional, Sequence, Tuple

T3 = [True, True, True]


def RetV(v: int) -> dict:
    return {"k": "ret", "cls": "", "v": v}


def RaiseV(cls: str, v: int) -> dict:
    return {"k": "raise", "cls": cls, "v": v}


def Op(op: str, f: int, o: int = 0, a: int = 0, when: int = 0) -> dict:
    return {"op": op, "f": f, "o": o, "a": a, "when": when}


def Con(role: str, err: str = "default", lam: bool = False, truth: Sequence[bool] = T3, rv: str = "bool",
        script: Sequence[dict] = (), escript: Sequence[dict] = ()) -> dict:
    return {"role": role, "err": err, "lam": lam, "truth": list(truth), "rv": rv, "script": list(script),
            "escript": list(escript), "noold": False}


def Snp(val: int, rv: str = "bool", script: Sequence[dict] = ()) -> dict:
    return {"val": val, "rv": rv, "script": list(script)}


def Fn(kind: str, cls: int = 0, isasync: bool = False, chain: Sequence[str] = ("chk",), pre: Sequence = (),
       snap: Sequence[int] = (), post: Sequence[int] = (), script: Sequence[dict] = (), out: Optional[list] = None,
       setst: int = 0, setattr_: bool = False) -> dict:
    return {"kind": kind, "cls": cls, "async": isasync, "chain": list(chain), "pre": [list(g) for g in pre],
            "snap": list(snap), "post": list(post), "script": list(script),
            "out": out if out is not None else [RetV(10), RetV(11), RetV(12)], "setst": setst, "setattr": setattr_}


def Cls(inv: Sequence[int] = (), oncall: Optional[Sequence[int]] = None, onset: Sequence[int] = (), dbc: bool = True,
        slots: bool = False) -> dict:
    return {"inv": list(inv), "oncall": list(inv if oncall is None else oncall), "onset": list(onset), "dbc": dbc,
            "slots": slots, "repr": 0, "base": 0}


NOFAULT = {"at": 0, "kind": "", "n": 0, "more": []}


def Prog(fn: list, con: list, snp: list = (), cls: list = (), obj: list = (), drv: list = (), fault: dict = NOFAULT,
         tag: str = "") -> dict:
    return {"pid": 0, "tag": tag, "fn": list(fn), "con": list(con), "snp": list(snp), "cls": list(cls),
            "obj": list(obj), "drv": [list(d) for d in drv], "fault": dict(fault)}


# ------------------------------------------------------------------------------------------------------
PRE_SHAPES = [
    [], [[1]], [[1, 2]], [[1, 2, 3]], [[1], [2]], [[1, 2], [3]], [[1], [2, 3]], [[1], [2], [3]], [[1, 2], [3, 4]],
]
ERR_FORMS = ["default", "class", "inst", "factory", "badfactory"]
MEMBER_KINDS = ["func", "method", "static", "class", "getter", "setter", "deleter", "init", "new"]


def _shape_ncons(shape: list) -> int:
    return sum(len(g) for g in shape)


def member_prog(kind: str, has_inv: bool, shape: list, npost: int, nsnap: int, pre_truth: Sequence[bool],
                post_truth: Sequence[bool], errs: Sequence[str], lam: bool, isasync: bool,
                inv_truth: bool = True, body_out: Optional[dict] = None, arg: int = 1, ncalls: int = 1,
                tag: str = "") -> Optional[dict]:
    """One callable of the given kind carrying the contracts, inside a class where the kind needs one."""
    npre = _shape_ncons(shape)
    if kind in ("func", "init", "new") and len(shape) > 1:
        return None  # several groups only arise through inheritance
    if isasync and kind not in ("func", "method", "static", "class"):
        return None
    a = 0 if kind in ("getter", "deleter") else arg
    cons = []
    for i in range(npre):
        tr = [True, True, True]
        tr[a] = pre_truth[i]
        cons.append(Con("pre", errs[i % len(errs)], lam, tr))
    post_ids = []
    for j in range(npost):
        tr = [True, True, True]
        tr[a] = post_truth[j]
        cons.append(Con("post", errs[(npre + j) % len(errs)], lam, tr))
        post_ids.append(len(cons))
    snps = [Snp(20 + s) for s in range(1, nsnap + 1)]
    snap_ids = list(range(1, nsnap + 1))
    out = [RetV(10), RetV(11), RetV(12)]
    if body_out is not None:
        out[a] = body_out
    if kind == "func":
        fns = [Fn("func", 0, isasync, ["chk"] if (npre or npost) else [], shape, snap_ids, post_ids, out=out)]
        drv = [Op("call", 1, 0, a) for _ in range(ncalls)]
        return Prog(fns, cons, snps, [], [], [drv], tag=tag)
    inv_ids = []
    if has_inv:
        cons.append(Con("inv", "default", False, [True, inv_truth, inv_truth]))
        inv_ids = [len(cons)]
    cls = [Cls(inv_ids)]
    obj = [{"cls": 1, "st0": 0}]
    has_chk = bool(npre or npost)
    if kind == "init":
        chain = (["init"] if has_inv else []) + (["chk"] if has_chk else [])
        f_init = Fn("init", 1, False, chain, shape, snap_ids, post_ids, out=[RetV(0)] * 3 if body_out is None else out,
                    setst=1)
        if body_out is None:
            f_init["out"] = [RetV(0), RetV(0), RetV(0)]
        drv = [Op("call", 1, 1, a)]
        return Prog([f_init], cons, snps, cls, obj, [drv], tag=tag)
    if kind == "new":
        chain = (["new"] if has_inv else []) + (["chk"] if has_chk else [])
        f_new = Fn("new", 1, False, chain, shape, snap_ids, post_ids, setst=1)
        f_new["out"] = [RetV(101), RetV(101), RetV(101)] if body_out is None else out
        drv = [Op("call", 1, 1, a)]
        return Prog([f_new], cons, snps, cls, obj, [drv], tag=tag)
    f_init = Fn("init", 1, False, ["init"] if has_inv else [], [], [], [], out=[RetV(0)] * 3, setst=1)
    wrapped = has_inv and kind in ("method", "getter", "setter", "deleter")
    chain = (["inv"] if wrapped else []) + (["chk"] if has_chk else [])
    f_m = Fn(kind, 1, isasync, chain, shape, snap_ids, post_ids, out=out)
    if kind in ("setter", "deleter"):
        f_m["out"] = [RetV(0), RetV(0), RetV(0)] if body_out is None else out
    o_call = 0 if kind in ("static", "class") else 1
    drv = [Op("call", 1, 1, 1)] + [Op("call", 2, o_call, a) for _ in range(ncalls)]
    return Prog([f_init, f_m], cons, snps, cls, obj, [drv], tag=tag)


def fam_pre(tier: str, rng: random.Random) -> Iterator[dict]:
    """C01: every kind x precondition shape x all truth assignments x what surrounds the preconditions."""
    around = [(0, 0), (1, 0), (1, 1)]
    for kind in MEMBER_KINDS:
        for has_inv in ([False] if kind in ("func", "static", "class") else [False, True]):
            for shape in PRE_SHAPES:
                n = _shape_ncons(shape)
                for npost, nsnap in around:
                    for bits in itertools.product([True, False], repeat=n):
                        for isasync in (False, True):
                            forms = ERR_FORMS if tier == "thorough" else [ERR_FORMS[(n + npost + len(shape)) % 5], "default"]
                            for ef in dict.fromkeys(forms):
                                for lam in ([False, True] if ef in ("default", "class") and not isasync else [False]):
                                    p = member_prog(kind, has_inv, shape, npost, nsnap, bits, [True] * npost, [ef], lam,
                                                    isasync, tag="pre")
                                    if p is not None:
                                        yield p


def number(progs: Iterable[dict]) -> List[dict]:
    out = []
    for i, p in enumerate(progs, 1):
        p["pid"] = i
        out.append(p)
    return out


# ------------------------------------------------------------------------------------------------------
def _scripts(targets: Sequence[dict], maxlen: int) -> List[List[dict]]:
    out = [[]]  # type: List[List[dict]]
    for n in range(1, maxlen + 1):
        for combo in itertools.product(targets, repeat=n):
            out.append([dict(op) for op in combo])
    return out


def fam_reent(tier: str, rng: random.Random) -> Iterator[dict]:
    """C10: call graphs among two contracted functions; conditions and bodies re-enter any function.

    f1 and f2 each have one precondition (f1 also a postcondition); every condition runs a script of up to two
    calls, every body calls "downwards" (only when its argument is 2, with argument 1).  Truth: conditions are
    true except that pre(f1) is false for argument 2 in half of the programs.
    """
    cond_targets = [Op("call", 1, 0, 1), Op("call", 2, 0, 1), Op("call", 1, 0, 2)]
    body_targets = [Op("call", 1, 0, 1, when=2), Op("call", 2, 0, 1, when=2)]
    cond_scripts = _scripts(cond_targets, 2)
    body_scripts = _scripts(body_targets, 2 if tier == "thorough" else 1)
    combos = list(itertools.product(cond_scripts, cond_scripts, cond_scripts, body_scripts, body_scripts))
    if tier != "thorough":
        rng.shuffle(combos)
        combos = combos[:1500]
    for (s_pre1, s_pre2, s_post1, s_b1, s_b2) in combos:
        for f1_false_at_2 in (False, True):
            cons = [Con("pre", "default", False, [True, True, not f1_false_at_2], script=s_pre1),
                    Con("pre", "default", False, T3, script=s_pre2),
                    Con("post", "default", False, T3, script=s_post1)]
            fns = [Fn("func", 0, False, ["chk"], [[1]], [], [3], script=s_b1),
                   Fn("func", 0, False, ["chk"], [[2]], [], [], script=s_b2)]
            drv = [Op("call", 1, 0, 2), Op("call", 2, 0, 2)]
            yield Prog(fns, cons, [], [], [], [drv], tag="reent")


# ------------------------------------------------------------------------------------------------------
def fam_random(tier: str, rng: random.Random, flavour: str = "pre") -> Iterator[dict]:
    """Programs well beyond the exhaustive bounds (validated by the trace specification only)."""
    n = 150 if tier == "quick" else 1500
    for _ in range(n):
        nfn = rng.randint(1, 3)
        cons = []  # type: List[dict]
        fns = []
        snps = []  # type: List[dict]

        def mk_script(depth_ok: bool) -> List[dict]:
            if not depth_ok or rng.random() < 0.6:
                return []
            return [Op("call", rng.randint(1, nfn), 0, rng.randint(1, 2)) for _ in range(rng.randint(1, 2))]

        for f in range(1, nfn + 1):
            groups = []
            for _g in range(rng.choice([0, 1, 1, 1])):
                grp = []
                for _c in range(rng.randint(1, 4)):
                    cons.append(Con("pre", rng.choice(ERR_FORMS), rng.random() < 0.3,
                                    [True, rng.random() < 0.7, rng.random() < 0.7], script=mk_script(True)))
                    if cons[-1]["err"] not in ("default", "class"):
                        cons[-1]["lam"] = False
                    grp.append(len(cons))
                groups.append(grp)
            posts = []
            for _c in range(rng.randint(0, 3)):
                cons.append(Con("post", rng.choice(ERR_FORMS), False, [True, rng.random() < 0.7, rng.random() < 0.7],
                                script=mk_script(True)))
                posts.append(len(cons))
            sn = []
            if posts:
                for _s in range(rng.randint(0, 2)):
                    snps.append(Snp(20 + len(snps) + 1))
                    sn.append(len(snps))
            body_script = [Op("call", rng.randint(1, nfn), 0, 1, when=2)] if rng.random() < 0.4 else []
            out = [RetV(10), RetV(10 + f), rng.choice([RetV(20 + f), RaiseV("Exception", 900 + f), RaiseV("KI", 900 + f)])]
            fns.append(Fn("func", 0, False, ["chk"] if (groups or posts) else [], groups, sn, posts, script=body_script,
                          out=out))
        drv = [Op("call", rng.randint(1, nfn), 0, rng.randint(1, 2)) for _ in range(rng.randint(1, 4))]
        yield Prog(fns, cons, snps, [], [], [drv], tag="random")


# ------------------------------------------------------------------------------------------------------
BODY_OUTCOMES = [RetV(11), RetV(0), RaiseV("Exception", 901), RaiseV("KI", 902), RaiseV("SysExit", 903),
                 RaiseV("GenExit", 904)]


def fam_post(tier: str, rng: random.Random) -> Iterator[dict]:
    """C02: postcondition stacks x all truth assignments x body outcomes x kinds x sync/async."""
    kinds = MEMBER_KINDS if tier == "thorough" else ["func", "method", "static", "getter", "setter", "init", "new", "class"]
    for kind in kinds:
        for has_inv in ([False] if kind in ("func", "static", "class") else [False, True]):
            for npost in (0, 1, 2, 3):
                for bits in itertools.product([True, False], repeat=npost):
                    for out in BODY_OUTCOMES:
                        if kind in ("init",) and out["k"] == "ret" and out["v"] != 0:
                            continue
                        if kind == "new" and out["k"] == "ret":
                            out = RetV(101)
                        if kind in ("setter", "deleter") and out["k"] == "ret" and out["v"] != 0:
                            continue
                        for isasync in (False, True):
                            for shape, nsnap in (([], 0), ([[1]], 1 if npost else 0)):
                                ef = ERR_FORMS[(npost + len(shape)) % 5] if tier != "thorough" else None
                                for form in (dict.fromkeys([ef, "default"]) if ef else ERR_FORMS):
                                    p = member_prog(kind, has_inv, shape, npost, nsnap, [True] * len(shape), bits, [form],
                                                    False, isasync, body_out=out, tag="post")
                                    if p is not None:
                                        yield p


def fam_guarded(tier: str, rng: random.Random) -> Iterator[dict]:
    """C01 / C02 / C16: stacks in which a later condition cannot be evaluated (it raises) unless the earlier ones hold -
    the guard idiom `result is not None` below `len(result) > 0`; and bodies returning Python's own singletons
    (NotImplemented, False, Ellipsis, 0, the empty string) like any other value."""
    for kind in ("func", "method", "static"):
        for isasync in (False, True):
            # postcondition stacks of 2-3 conditions, one of them raising
            for npost in (2, 3):
                for bits in itertools.product([True, False], repeat=npost):
                    for bad in range(npost):
                        for form in ("default", "class"):
                            p = member_prog(kind, kind == "method", [], npost, 0, [], bits, [form], False, isasync, ncalls=2,
                                            tag="guarded-post")
                            if p is None:
                                continue
                            posts = [c for c in p["con"] if c["role"] == "post"]
                            posts[bad]["rv"] = "raises"
                            yield p
            # one conjunctive precondition group of 2-3 conditions / two groups
            for shape in ([[1, 2]], [[1, 2, 3]], [[1], [2]], [[1, 2], [3]]):
                if len(shape) > 1 and kind != "method":
                    continue
                n = _shape_ncons(shape)
                for bits in itertools.product([True, False], repeat=n):
                    for bad in range(n):
                        p = member_prog(kind, False, shape, 0, 0, bits, [], ["default"], False, isasync, ncalls=2,
                                        tag="guarded-pre")
                        if p is None:
                            continue
                        pres = [c for c in p["con"] if c["role"] == "pre"]
                        pres[bad]["rv"] = "raises"
                        yield p
            # singleton results under 0-2 postconditions
            for v in (71, 72, 73, 74, 75):
                for npost in (0, 1, 2):
                    for bits in itertools.product([True, False], repeat=npost):
                        p = member_prog(kind, kind == "method", [[1]], npost, 1 if npost else 0, [True], bits, ["default"], False,
                                        isasync, body_out=RetV(v), ncalls=2, tag="singleton-result")
                        if p is not None:
                            yield p


def fam_snap(tier: str, rng: random.Random) -> Iterator[dict]:
    """C08: snapshots x postconditions x precondition outcome x kinds x sync/async x capture flavours."""
    for kind in MEMBER_KINDS:
        for has_inv in ([False] if kind in ("func", "static", "class") else [False, True]):
            for nsnap in (0, 1, 2):
                for npost in (0, 1, 2):
                    if nsnap and not npost:
                        continue  # rejected at definition time (covered by the definition-time machine)
                    for pre_ok in (True, False):
                        for post_ok in (True, False):
                            for isasync in (False, True):
                                for cap_rv in (["bool"] if not isasync else ["bool", "corofn", "coro"]):
                                    p = member_prog(kind, has_inv, [[1]], npost, nsnap, [pre_ok], [post_ok] * npost,
                                                    ["default"], False, isasync, tag="snap")
                                    if p is None:
                                        continue
                                    for s in p["snp"]:
                                        s["rv"] = cap_rv
                                    yield p
    # captures without parameters (they read the world outside the call): evaluated at EVERY call, so two calls each
    for kind in MEMBER_KINDS:
        for nsnap in (1, 2):
            for post_ok in (True, False):
                for isasync in (False, True):
                    for cap_rv in (["bool"] if not isasync else ["bool", "corofn"]):
                        p = member_prog(kind, False, [[1]], 1, nsnap, [True], [post_ok], ["default"], False, isasync,
                                        ncalls=2, tag="snap-noargs")
                        if p is None:
                            continue
                        for s in p["snp"]:
                            s["rv"] = cap_rv
                        p["snp"][0]["noargs"] = 1
                        yield p
    # sync callables given coroutine captures: ValueError instead of a bogus OLD
    for cap_rv in ("corofn", "coro"):
        for kind in ("func", "method"):
            p = member_prog(kind, False, [], 1, 1, [], [True], ["default"], False, False, tag="snap-sync-coro")
            assert p is not None
            p["snp"][0]["rv"] = cap_rv
            yield p


def fam_err(tier: str, rng: random.Random) -> Iterator[dict]:
    """C09: error forms x roles x kinds x sync/async (the violated contract is the only falsy one)."""
    for kind in MEMBER_KINDS:
        for role in ("pre", "post", "inv"):
            for form in ERR_FORMS:
                for lam in ([False, True] if form in ("default", "class") else [False]):
                    for isasync in (False, True):
                        if role == "inv":
                            if kind in ("func", "static", "class"):
                                continue
                            p = member_prog(kind, True, [], 0, 0, [], [], ["default"], False, isasync, tag="err-inv")
                            if p is None:
                                continue
                            inv = p["con"][-1]
                            inv["err"] = form
                            inv["lam"] = lam
                            inv["truth"] = [True, False, False]
                            yield p
                        elif role == "pre":
                            p = member_prog(kind, False, [[1]], 0, 0, [False], [], [form], lam and not isasync, isasync,
                                            tag="err-pre")
                            if p is not None:
                                yield p
                        else:
                            for nsnap in (0, 1):
                                p = member_prog(kind, False, [], 1, nsnap, [], [False], [form], lam and not isasync,
                                                isasync, tag="err-post")
                                if p is not None:
                                    yield p
                                if nsnap and p is not None:
                                    # the condition does not name OLD, the error (factory) does
                                    q = json_copy(p)
                                    q["con"][0]["noold"] = True
                                    q["tag"] = "err-post-noold"
                                    yield q
    # the same contract violated repeatedly: the instance / factory result identity must hold every time
    for kind in ("func", "method", "setter"):
        for role in ("pre", "post"):
            for form in ("inst", "factory", "class", "default"):
                for isasync in (False, True):
                    p = member_prog(kind, False, [[1]] if role == "pre" else [], 1 if role == "post" else 0, 0, [False],
                                    [False], [form], False, isasync, ncalls=3, tag="err-repeat")
                    if p is not None:
                        yield p


def fam_errbase(tier: str, rng: random.Random) -> Iterator[dict]:
    """The configured error derives from BaseException directly (an "abort" signal); the same contract is violated
    three times in a row and each call must be judged like the first."""
    for kind in ("func", "method", "setter", "static", "init"):
        for role in ("pre", "post", "inv"):
            for form in ("inst", "factory", "class"):
                for isasync in (False, True):
                    if role == "inv":
                        if kind in ("func", "static"):
                            continue
                        p = member_prog(kind, True, [], 0, 0, [], [], ["default"], False, isasync, ncalls=3,
                                        tag="errbase-inv")
                        if p is None:
                            continue
                        inv = p["con"][-1]
                        inv["err"] = form
                        inv["truth"] = [True, False, False]
                    else:
                        p = member_prog(kind, False, [[1]] if role == "pre" else [], 1 if role == "post" else 0, 0,
                                        [False], [False], [form], False, isasync, ncalls=3, tag="errbase-" + role)
                    if p is not None:
                        p["errbase"] = True
                        yield p


def fam_errfalsy(tier: str, rng: random.Random) -> Iterator[dict]:
    """The configured error objects are FALSY (exception types defining __bool__ / __len__): a violation is raised all
    the same - the gate must test for the presence of an error, not for its truth value."""
    for p in fam_errbase(tier, rng):
        q = json_copy(p)
        q.pop("errbase", None)
        q["errfalsy"] = True
        q["tag"] = p["tag"].replace("errbase", "errfalsy")
        yield q


def fam_order_seq(tier: str, rng: random.Random) -> Iterator[dict]:
    """C16: sequences of calls with different arguments on a method with several precondition groups: which
    conditions are evaluated, in which order, and whose error is raised must not depend on the calls made before."""
    shapes = [[[1], [2]], [[1], [2], [3]], [[1, 2], [3]], [[1], [2, 3]]]
    tables = [t for t in itertools.product([True, False], repeat=3) if not all(t)]
    seqs = list(itertools.product((0, 1, 2), repeat=3))
    combos = []
    for shape in shapes:
        n = _shape_ncons(shape)
        for kind in ("method", "static"):
            for isasync in (False, True):
                for _ in range(6 if tier == "quick" else 40):
                    combos.append((shape, n, kind, isasync, [rng.choice(tables) for _ in range(n)], rng.choice(seqs)))
    for shape, n, kind, isasync, truths, seq in combos:
        p = member_prog(kind, False, shape, 0, 0, [True] * n, [], ["default", "inst", "factory"], False, isasync,
                        ncalls=3, tag="order-seq")
        if p is None:
            continue
        for c, tr in zip(p["con"], truths):
            c["truth"] = list(tr)
        calls = [op for op in p["drv"][0] if op["f"] == len(p["fn"])]
        for op, a in zip(calls, seq):
            op["a"] = a
        yield p


def fam_wants_args(tier: str, rng: random.Random) -> Iterator[dict]:
    """Two or three precondition groups (inheritance); a condition of a LATER group asks for _ARGS; the earlier groups
    are violated (their messages are built) before it is evaluated."""
    for kind in ("method", "static"):
        for shape in ([[1], [2]], [[1], [2], [3]], [[1, 2], [3]]):
            n = _shape_ncons(shape)
            for bits in itertools.product([True, False], repeat=n):
                if bits[0]:
                    continue
                for isasync in (False, True):
                    for form in ("default", "inst"):
                        p = member_prog(kind, False, shape, 0, 0, bits, [], [form], False, isasync, ncalls=2, tag="wants-args")
                        if p is None:
                            continue
                        p["con"][n - 1]["wants_args"] = True
                        yield p


def fam_snap_rec(tier: str, rng: random.Random) -> Iterator[dict]:
    """C08: overlapping calls of the same callable with equally named snapshots (the body calls the function again,
    a condition of another function calls it): every call's postconditions and error factories see ITS pre-state."""
    for isasync in (False, True):
        for kind in ("func", "method"):
            for nsnap in (1, 2):
                for post_truth in ([True, True, True], [True, True, False], [True, False, True]):
                    for form in ("default", "factory"):
                        p = member_prog(kind, False, [], 1, nsnap, [], [True], [form], False, isasync, arg=2, ncalls=2,
                                        tag="snap-rec")
                        if p is None:
                            continue
                        f = len(p["fn"])
                        fn = p["fn"][f - 1]
                        fn["script"] = [Op("call", f, -1 if kind == "method" else 0, 1, when=2)]   # recursion with another argument
                        for snp in p["snp"]:
                            snp["byarg"] = 1
                        p["con"][0]["truth"] = list(post_truth)
                        yield p


def fam_rec_args(tier: str, rng: random.Random) -> Iterator[dict]:
    """C05: overlapping calls of one callable with different arguments (the body calls the callable again): the
    postconditions, error factories and invariants of every call see the arguments of THAT call."""
    for isasync in (False, True):
        for kind in ("func", "method", "static"):
            for npre in (0, 1):
                for post_truth in ([True, True, True], [True, True, False], [True, False, True]):
                    for form in ("default", "factory"):
                        p = member_prog(kind, kind == "method", [[1]] if npre else [], 2, 0, [True] * npre, [True, True],
                                        [form], False, isasync, arg=2, ncalls=2, tag="rec-args")
                        if p is None:
                            continue
                        f = len(p["fn"])
                        p["fn"][f - 1]["script"] = [Op("call", f, -1 if kind == "method" else 0, 1, when=2)]
                        posts = [c for c in p["con"] if c["role"] == "post"]
                        posts[-1]["truth"] = list(post_truth)
                        yield p


def fam_errdefaults(tier: str, rng: random.Random) -> Iterator[dict]:
    """C09: error factories all of whose parameters carry default values still receive the values of the call."""
    for p in fam_err(tier, rng):
        if any(c["err"] in ("factory", "badfactory") for c in p["con"]) and not any(c["lam"] for c in p["con"]):
            q = json_copy(p)
            q["errdefaults"] = True
            q["tag"] = p["tag"] + "-errdefaults"
            yield q


def with_bare_override(progs: Iterable[dict], rng: random.Random, n: int) -> List[dict]:
    """A sample of the programs whose callables live in a class, rendered with one more class level that overrides every
    member without contracts of its own (the metaclass builds that override's checker from the inherited contracts)."""
    pool = [p for p in progs if p["cls"] and not p.get("bare_override")]
    out = []
    for p in rng.sample(pool, min(n, len(pool))):
        q = json_copy(p)
        q["bare_override"] = True
        q["tag"] = p["tag"] + "-bare-override"
        out.append(q)
    return out


def fam_errf_wrapped(tier: str, rng: random.Random) -> Iterator[dict]:
    """C09: the error factory passed through a functools.wraps decorator: it is still called with the values it names."""
    for p in fam_err(tier, rng):
        if any(c["err"] in ("factory", "badfactory") for c in p["con"]) and not any(c["lam"] for c in p["con"]):
            q = json_copy(p)
            q["errf_wrapped"] = True
            q["tag"] = p["tag"] + "-errf-wrapped"
            yield q


def fam_err_inherited(tier: str, rng: random.Random) -> Iterator[dict]:
    """C09: preconditions inherited through one or two levels whose errors are exception INSTANCES / factories: the
    very object given (the last object the factory returned) is raised also when an override is called."""
    for kind in ("method", "static", "setter"):
        for shape in ([[1], [2]], [[1], [2], [3]], [[1, 2], [3]]):
            n = _shape_ncons(shape)
            for forms in (["inst"], ["factory"], ["inst", "factory"], ["class", "inst"]):
                for isasync in (False, True):
                    p = member_prog(kind, False, shape, 0, 0, [False] * n, [], forms, False, isasync, ncalls=2,
                                    tag="err-inherited")
                    if p is not None:
                        yield p
                        # the instance's class overrides the member without contracts of its own: the error of an
                        # INHERITED contract is raised, through the checker the metaclass created for the override
                        q = json_copy(p)
                        q["bare_override"] = True
                        q["tag"] = "err-inherited-bare-override"
                        yield q
        for form in ("inst", "factory"):
            for isasync in (False, True):
                p = member_prog(kind, False, [[1]], 1, 0, [True], [False], [form], False, isasync, ncalls=2,
                                tag="err-inherited-post")
                if p is not None:
                    p["bare_override"] = True
                    yield p


def fam_reent_cap(tier: str, rng: random.Random) -> Iterator[dict]:
    """C10: snapshot captures (plain and coroutine) that call the function they belong to, directly or through another
    contracted function: own re-entry while the contracts are evaluated, skipped exactly once."""
    for isasync in (False, True):
        for rv in (("bool",) if not isasync else ("bool", "corofn")):
            for via in ("direct", "mutual"):
                for pre in (False, True):
                    cons = [Con("post"), Con("post")] + ([Con("pre")] if pre else [])
                    target = 1 if via == "direct" else 2
                    snps = [Snp(21, rv, [Op("call", target, 0, 1)]), Snp(22, "bool", [Op("call", 1, 0, 1)])]
                    fns = [Fn("func", 0, isasync, ["chk"], [[3]] if pre else [], [1], [1]),
                           Fn("func", 0, isasync, ["chk"], [], [2], [2])]
                    drv = [Op("call", 1, 0, 1), Op("call", 2, 0, 2), Op("call", 1, 0, 2)]
                    yield Prog(fns, cons, snps, [], [], [drv], tag="reent-cap")


def fam_order_mixed_async(tier: str, rng: random.Random) -> Iterator[dict]:
    """C16: coroutine functions whose stacks mix plain and coroutine-function conditions: evaluated in the declared
    order whatever their flavour."""
    shapes = [[[1, 2]], [[1, 2, 3]], [[1, 2], [3]]]
    for kind in ("func", "method"):
        for shape in shapes:
            n = _shape_ncons(shape)
            for npost in (0, 2):
                for flav in itertools.product(("bool", "corofn"), repeat=n + npost):
                    if len(set(flav)) < 2:
                        continue
                    for bits in itertools.product([True, False], repeat=n + npost):
                        if all(bits) or (tier == "quick" and rng.random() < 0.6):
                            continue
                        p = member_prog(kind, False, shape, npost, 0, bits[:n], bits[n:], ["inst", "factory"], False, True,
                                        tag="order-mixed-async")
                        if p is None:
                            continue
                        for c, rv in zip(p["con"], flav):
                            c["rv"] = rv
                        yield p


def fam_badkw(tier: str, rng: random.Random) -> Iterator[dict]:
    """Calls that pass an unexpected keyword named like a reserved name (result=...) through the callee's **kwargs,
    mixed with ordinary calls of the same callable: rejected with TypeError where the callable has postconditions
    (an ordinary argument elsewhere), and the calls after it are checked like the first."""
    for kind in ("func", "method", "static", "class"):
        for has_inv in ([False] if kind != "method" else [False, True]):
            for npre, npost in ((1, 0), (0, 1), (1, 1), (1, 2)):
                for isasync in (False, True):
                    for pre_ok, post_ok in ((True, True), (False, True), (True, False)):
                        if (not pre_ok and not npre) or (not post_ok and not npost):
                            continue
                        for pattern in ((1, 0, 0), (0, 1, 0), (1, 1, 0), (1, 0, 1)):
                            p = member_prog(kind, has_inv, [[1]] if npre else [], npost, 0, [pre_ok] * npre,
                                            [post_ok] * npost, ["default"], False, isasync, ncalls=3, tag="badkw")
                            if p is None:
                                continue
                            calls = [op for op in p["drv"][0] if op["f"] == len(p["fn"])]
                            for op, bad in zip(calls, pattern):
                                if bad:
                                    op["bad"] = 1
                            p["badkw"] = True
                            yield p
    # the unexpected keyword passed by a re-entrant call (made by the function's own condition)
    for isasync in (False, True):
        for npost in (0, 1):
            cons = [Con("pre", script=[dict(Op("call", 1, 0, 1), bad=1)])] + [Con("post")] * npost
            fns = [Fn("func", 0, isasync, ["chk"], [[1]], [], [2] if npost else [])]
            if isasync:
                cons[0]["rv"] = "corofn"
            p = Prog(fns, [dict(c) for c in cons], [], [], [], [[Op("call", 1, 0, 1), Op("call", 1, 0, 2)]], tag="badkw-reent")
            p["badkw"] = True
            yield p


def fam_order(tier: str, rng: random.Random) -> Iterator[dict]:
    """C16: several simultaneously falsy contracts at different positions / levels; all truth assignments."""
    shapes = [[[1, 2]], [[1, 2, 3]], [[1], [2]], [[1, 2], [3]], [[1], [2, 3]], [[1], [2], [3]], [[1, 2], [3, 4]]]
    for kind in ("func", "method", "static", "setter"):
        for shape in shapes:
            n = _shape_ncons(shape)
            for npost in (0, 2, 3):
                for pre_bits in itertools.product([True, False], repeat=n):
                    for post_bits in itertools.product([True, False], repeat=npost):
                        if all(pre_bits) and all(post_bits):
                            continue
                        for isasync in (False, True):
                            for lam in ((False, True) if not isasync else (False,)):
                                p = member_prog(kind, kind == "method", shape, npost, 1 if npost else 0, pre_bits,
                                                post_bits, ["default", "inst", "factory", "class"], lam, isasync, tag="order")
                                if p is not None:
                                    yield p


def fam_order_forms(tier: str, rng: random.Random) -> Iterator[dict]:
    """C16: several precondition groups whose conditions configure their errors differently (an explicit error in an
    EARLIER group, the default in the last one, and the other way round): the error is that of the first falsy condition
    of the last group tried, whatever its form."""
    shapes = [[[1], [2]], [[1, 2], [3]], [[1], [2, 3]], [[1], [2], [3]]]
    orders = [["inst", "default", "class", "factory"], ["class", "default", "default", "inst"],
              ["factory", "inst", "default", "default"], ["default", "class", "default", "default"]]
    for kind in ("method", "static"):
        for shape in shapes:
            n = _shape_ncons(shape)
            for pre_bits in itertools.product([True, False], repeat=n):
                if all(pre_bits):
                    continue
                for forms in orders:
                    for isasync in (False, True):
                        p = member_prog(kind, False, shape, 0, 0, pre_bits, [], forms, False, isasync, tag="order-forms")
                        if p is not None:
                            yield p


# ------------------------------------------------------------------------------------------------------
# C03: invariants around operations on instances.  Object states: 0 = not constructed, 1 = sound, 2 = broken.
INV_TRUTH = [False, True, False]
# invariant declarations of a class: list of check_on values in evaluation order
INV_COMBOS = [["CALL"], ["ALL"], ["SETATTR"], ["CALL", "SETATTR"], ["SETATTR", "CALL"], ["CALL", "CALL"]]
WRAPPED_KINDS = ("method", "getter", "setter", "deleter", "dunder")


def class_prog(inv_on: Sequence[str], members: Sequence[Tuple[str, int]], ops: Sequence[Tuple[int, int]],
               dbc: bool = True, slots: bool = False, init_setst: int = 1, inv_err: str = "default",
               with_pre_on_first: bool = False, tag: str = "inv", ninst: int = 1) -> dict:
    """A class with the given invariants; members = [(kind, setst)]; ops = [(member index from 1, instance)]."""
    cons = []
    inv, oncall, onset = [], [], []
    for on in inv_on:
        cons.append(Con("inv", inv_err, False, INV_TRUTH))
        c = len(cons)
        inv.append(c)
        if on in ("CALL", "ALL"):
            oncall.append(c)
        if on in ("SETATTR", "ALL"):
            onset.append(c)
    cls = Cls(inv, oncall, onset, dbc=dbc, slots=slots)
    fns = [Fn("init", 1, False, ["init"] if inv else [], out=[RetV(0)] * 3, setst=init_setst)]
    for kind, setst in members:
        if kind == "setattr":
            chain = ["inv"] if onset else []
        elif kind in WRAPPED_KINDS:
            chain = ["inv"] if oncall else []
        else:
            chain = []
        out = [RetV(0)] * 3 if kind in ("setter", "deleter", "repr", "setattr") else [RetV(10), RetV(11), RetV(12)]
        pre = []
        if with_pre_on_first and len(fns) == 1 and kind in WRAPPED_KINDS + ("protected",):
            cons.append(Con("pre", "default", False, T3))
            pre = [[len(cons)]]
            chain = chain + ["chk"]
        fns.append(Fn(kind, 1, False, chain, pre, out=out, setst=setst, setattr_=(kind == "setattr")))
        if kind == "repr":
            cls["repr"] = len(fns)
    obj = [{"cls": 1, "st0": 0} for _ in range(ninst)]
    drv = [Op("call", 1, o, 1) for o in range(1, ninst + 1)]
    for m, o in ops:
        kind = fns[m]["kind"]
        a = 0 if kind in ("getter", "deleter", "repr") else 1
        drv.append(Op("call", m + 1, 0 if kind in ("static", "class") else o, a))
    return Prog(fns, cons, [], [cls], obj, [drv], tag=tag)


def fam_inv(tier: str, rng: random.Random) -> Iterator[dict]:
    """C03: member kinds x check_on combinations x operation sequences x object-state flips.

    Two member sets: (A) with property setter / deleter and no __setattr__ of its own, (B) with a __setattr__
    defined in Python.  In (A) a setter is exercised only in classes without SETATTR invariants: an assignment
    goes through the (wrapped) __setattr__ first, a composition treated by its own family (fam_inv_setattr).
    """
    members_a = [("method", 0), ("method", 2), ("method", 1), ("protected", 2), ("private", 2), ("getter", 0),
                 ("setter", 2), ("static", 0), ("class", 0), ("dunder", 0), ("repr", 0), ("deleter", 0)]
    members_b = [("method", 0), ("method", 2), ("method", 1), ("protected", 2), ("getter", 0),
                 ("setattr", 2), ("repr", 0)]
    for members in (members_a, members_b):
        nm = len(members)
        seqs = [[(m, 1)] for m in range(1, nm + 1)]
        seqs += [[(m1, 1), (m2, 1)] for m1 in range(1, nm + 1) for m2 in range(1, nm + 1)]
        if tier == "thorough":
            tri = [[(a, 1), (b, 1), (c, 1)] for a in range(1, nm + 1) for b in range(1, nm + 1)
                   for c in range(1, nm + 1)]
            rng.shuffle(tri)
            seqs += tri[:600]
        for inv_on in INV_COMBOS:
            has_setattr_inv = any(on in ("SETATTR", "ALL") for on in inv_on)
            for ops in seqs:
                if has_setattr_inv and any(members[m - 1][0] == "setter" for m, _ in ops):
                    continue
                for dbc, slots in ((True, False), (False, False), (True, True)):
                    if slots and any(k == "setattr" for k, _ in members):
                        continue
                    if tier != "thorough" and (dbc, slots) != (True, False) and len(ops) > 1 and rng.random() < 0.8:
                        continue
                    yield class_prog(inv_on, members, ops, dbc=dbc, slots=slots)
    members = members_a
    # the object is broken by the constructor itself; error forms of invariants
    for inv_on in INV_COMBOS:
        for form in ERR_FORMS:
            yield class_prog(inv_on, members[:3], [(1, 1)], init_setst=2, inv_err=form, tag="inv-ctor-breaks")
            yield class_prog(inv_on, members[:3], [(2, 1), (1, 1)], inv_err=form, tag="inv-err")
    # the argument (and, through the class, `self`) passed by keyword: the wrappers must find the instance
    for inv_on in (["CALL"], ["ALL"]):
        for kw in (1, 2):
            for m in (1, 2, 3):
                p = class_prog(inv_on, members[:5], [(m, 1), (1, 1)], with_pre_on_first=True, tag="inv-kw")
                for op in p["drv"][0][1:]:
                    op["kw"] = kw
                yield p
    # two instances: operations on one never touch the other
    for inv_on in (["CALL"], ["ALL"]):
        for m1 in (1, 2, 3, 4):
            for m2 in (1, 2, 3):
                yield class_prog(inv_on, members[:5], [(m1, 1), (m2, 2), (1, 1)], ninst=2, tag="inv-two")


def with_late_members(progs: Iterable[dict]) -> Iterator[dict]:
    """C03: the same classes with two or more invariants whose plain public methods are added by a class decorator that
    sits between the invariant decorators: they are public methods of the class like any other."""
    for p in progs:
        if len(p["cls"]) == 1 and len(p["cls"][0]["inv"]) >= 2 and not p["cls"][0].get("base"):
            if any(f["kind"] == "method" and not f["pre"] and not f["post"] for f in p["fn"]):
                q = json_copy(p)
                q["late_members"] = True
                q["tag"] = p["tag"] + "-late-members"
                yield q


def with_defs_via_alias(progs: Iterable[dict]) -> Iterator[dict]:
    """C03: the same classes with the constructor / __setattr__ written under an ordinary name and bound to the special
    name in the class body (``__init__ = _setup``): they are the constructor / the attribute setter all the same."""
    for p in progs:
        if any(f["kind"] in ("init", "setattr") for f in p["fn"]) and not any(f.get("alias_of") for f in p["fn"]):
            q = json_copy(p)
            q["defs_via_alias"] = True
            q["tag"] = p["tag"] + "-defs-via-alias"
            yield q


def fam_ctor_alias(tier: str, rng: random.Random) -> Iterator[dict]:
    """C03: the constructor bound under a second, public name (``reset = __init__``): called through that name it is a
    public method like any other - invariants before (the object may have been broken meanwhile) and after."""
    members = [("method", 0), ("protected", 2), ("method", 2)]
    for inv_on in INV_COMBOS:
        for dbc in (True, False):
            for init_setst in (1, 2):
                for ops in ([], [(2, 1)], [(3, 1)], [(1, 1)], [(2, 1), (1, 1)]):
                    p = class_prog(inv_on, members, ops, dbc=dbc, init_setst=init_setst, tag="ctor-alias")
                    oncall = p["cls"][0]["oncall"]
                    alias = json_copy(p["fn"][0])
                    alias.update({"kind": "method", "chain": ["inv"] if oncall else [], "alias_of": 1})
                    p["fn"].append(alias)
                    p["drv"][0] += [Op("call", len(p["fn"]), 1, 1), Op("call", 2, 1, 1)]
                    yield p


def fam_inv_sub(tier: str, rng: random.Random) -> Iterator[dict]:
    """C03: a subclass whose constructor calls the base constructor; members added by the subclass.

    Base K1 with invariant A, subclass K2(K1) optionally adding invariant B.  States: 2 = base part built,
    1 = fully built.  A holds in states 1 and 2, B only in state 1.
    """
    for base_on in (["CALL"], ["SETATTR"], ["CALL", "SETATTR"], ["SETATTR", "CALL"], ["ALL"]):
        for sub_on in ([], ["CALL"], ["SETATTR"]):
            for super_pos in ("first", "last", "never", "noinit", "then_method", "method_then"):
                for base_sets in (2, 1):
                    cons = []
                    inv1, oncall1, onset1 = [], [], []
                    for on in base_on:
                        cons.append(Con("inv", "default", False, [False, True, True]))
                        inv1.append(len(cons))
                        if on in ("CALL", "ALL"):
                            oncall1.append(len(cons))
                        if on in ("SETATTR", "ALL"):
                            onset1.append(len(cons))
                    inv2, oncall2, onset2 = list(inv1), list(oncall1), list(onset1)
                    for on in sub_on:
                        cons.append(Con("inv", "default", False, [False, True, False]))
                        inv2.append(len(cons))
                        if on in ("CALL", "ALL"):
                            oncall2.append(len(cons))
                        if on in ("SETATTR", "ALL"):
                            onset2.append(len(cons))
                    c1 = Cls(inv1, oncall1, onset1)
                    c2 = Cls(inv2, oncall2, onset2)
                    c2["base"] = 1
                    fns = [Fn("init", 1, False, ["init"], out=[RetV(0)] * 3, setst=base_sets),
                           Fn("method", 1, False, ["inv"] if oncall2 else [], setst=0)]
                    if super_pos != "noinit":
                        script = [Op("call", 1, 1, 1)] if super_pos in ("first", "last") else []
                        if super_pos == "then_method":
                            # the base constructor, then a public method of the half-built object
                            script = [Op("call", 1, 1, 1), Op("call", 2, 1, 1)]
                        elif super_pos == "method_then":
                            script = [Op("call", 2, 1, 1), Op("call", 1, 1, 1), Op("call", 2, 1, 1)]
                        fns.append(Fn("init", 2, False, ["init"], script=script, out=[RetV(0)] * 3, setst=1))
                        ctor = 3
                    else:
                        ctor = 1
                    fns.append(Fn("method", 2, False, ["inv"] if oncall2 else [], setst=2))   # breaks B
                    n_break = len(fns)
                    fns.append(Fn("method", 2, False, ["inv"] if oncall2 else [], setst=1))   # repairs
                    n_fix = len(fns)
                    fns.append(Fn("getter", 2, False, ["inv"] if oncall2 else [], setst=0))
                    n_get = len(fns)
                    obj = [{"cls": 2, "st0": 0}]
                    for ops in ([], [(2, 1)], [(n_break, 1), (n_get, 0)], [(n_break, 1), (n_fix, 1), (2, 1)], [(n_get, 0)]):
                        drv = [Op("call", ctor, 1, 1)] + [Op("call", m, 1, a) for m, a in ops]
                        yield Prog([dict(f) for f in fns], [dict(c) for c in cons], [], [dict(c1), dict(c2)], obj, [drv],
                                   tag="inv-sub")
                    if super_pos in ("first", "noinit") and oncall1:
                        # (the base class has invariants checked on calls as well, so that the inherited method is
                        #  wrapped in the base: the chain of a callable does not depend on the class of the instance)
                        # an instance of the base class and one of the subclass use the same inherited method, in
                        # both orders: each call is judged by the invariants of the class of ITS instance
                        obj2 = [{"cls": 2, "st0": 0}, {"cls": 1, "st0": 0}]
                        for order in ((2, 1), (1, 2)):
                            drv = [Op("call", ctor, 1, 1), Op("call", 1, 2, 1), Op("call", n_break, 1, 1)]
                            drv += [Op("call", 2, o, 1) for o in order] + [Op("call", 2, o, 1) for o in order]
                            yield Prog([dict(f) for f in fns], [dict(c) for c in cons], [], [dict(c1), dict(c2)], obj2,
                                       [drv], tag="inv-sub-two-instances")


# ------------------------------------------------------------------------------------------------------
FAULT_KINDS = ["Exception", "KI", "GenExit", "SysExit"]


def _fault_bases(tier: str) -> List[Tuple[str, dict]]:
    """Programs with many different crossings; the first driver call is the one to be faulted."""
    out = []
    # plain function: 2 preconditions, snapshot, 2 postconditions; variants of what is falsy
    for variant in ("alltrue", "pre2-falsy-factory", "post1-falsy-lam", "post2-falsy-class", "pre1-badbool"):
        for isasync in (False, True):
            cons = [Con("pre"), Con("pre", "factory"), Con("post", "default", not isasync), Con("post", "class")]
            if variant == "pre2-falsy-factory":
                cons[1]["truth"] = [True, False, True]
            if variant == "post1-falsy-lam":
                cons[2]["truth"] = [True, False, True]
            if variant == "post2-falsy-class":
                cons[3]["truth"] = [True, False, True]
            if variant == "pre1-badbool":
                cons[0]["rv"] = "badbool"
            fns = [Fn("func", 0, isasync, ["chk"], [[1, 2]], [1], [3, 4])]
            drv = [Op("call", 1, 0, 1), Op("call", 1, 0, 1), Op("call", 1, 0, 2)]
            out.append(("func-" + variant + ("-async" if isasync else ""), Prog(fns, cons, [Snp(21)], [], [], [drv])))
    # method of a class with invariants and its own __repr__; the body breaks the invariant
    for variant in ("sound", "breaks"):
        for isasync in (False, True):
            cons = [Con("inv", "default", False, INV_TRUTH), Con("pre"), Con("post")]
            cls = Cls([1])
            fns = [Fn("init", 1, False, ["init"], out=[RetV(0)] * 3, setst=1),
                   Fn("method", 1, isasync, ["inv", "chk"], [[2]], [], [3], setst=2 if variant == "breaks" else 0),
                   Fn("repr", 1, False, [], out=[RetV(0)] * 3),
                   Fn("method", 1, False, ["inv"], setst=1)]
            cls["repr"] = 3
            drv = [Op("call", 1, 1, 1), Op("call", 2, 1, 1), Op("call", 4, 1, 1), Op("call", 2, 1, 1)]
            out.append(("method-" + variant + ("-async" if isasync else ""),
                        Prog(fns, cons, [], [cls], [{"cls": 1, "st0": 0}], [drv])))
    # a method whose preconditions were weakened twice (three groups along a hierarchy): a fault in a condition of ANY
    # group is the caller's, whatever the later groups would say
    for bits in ((True, True, True), (False, True, True), (False, False, True), (False, False, False)):
        for isasync in (False, True):
            p = member_prog("method", False, [[1], [2], [3]], 1, 0, bits, [True], ["default"], False, isasync, ncalls=2,
                            tag="fault-base")
            if p is not None:
                out.append(("method-3groups-{}{}".format("".join("t" if b else "f" for b in bits), "-async" if isasync else ""), p))
    return out


def fam_fault(tier: str, rng: random.Random) -> Iterator[dict]:
    """C11: a fault of every kind injected at every crossing of a checked call, followed by probe calls."""
    kmax = 16
    for name, base in _fault_bases(tier):
        kinds = list(FAULT_KINDS)
        if not any(f["async"] for f in base["fn"]):
            kinds += ["StopIter", "Assertion", "Key", "Type", "Attr"]
        for k in range(1, kmax + 1):
            for kind in kinds:
                p = json_copy(base)
                p["fault"] = {"at": k, "kind": kind, "n": 0, "more": []}
                p["tag"] = "fault-{}-k{}-{}".format(name, k, kind)
                yield p
        # sequences of two faults
        pairs = [(k1, k2) for k1 in range(1, 10) for k2 in range(k1 + 1, 14)]
        if tier != "thorough":
            pairs = rng.sample(pairs, 12)
        for k1, k2 in pairs:
            for kind in ("Exception", "KI"):
                p = json_copy(base)
                p["fault"] = {"at": k1, "kind": kind, "n": 0, "more": [k2]}
                p["tag"] = "fault2-{}-k{}-k{}-{}".format(name, k1, k2, kind)
                yield p


def fam_break_raise(tier: str, rng: random.Random) -> Iterator[dict]:
    """C11 / C03: a public method (sync / async), a property setter or __setattr__ that leaves the invariant broken AND
    raises (update-then-validate code): the caller gets the body's exception itself; the next public call finds the
    broken invariant."""
    for members, brk in (([("method", 2), ("method", 0), ("protected", 1)], 1), ([("setter", 2), ("method", 0)], 1),
                         ([("setattr", 2), ("method", 0)], 1), ([("getter", 2), ("method", 0)], 1)):
        for inv_on in INV_COMBOS:
            if members[0][0] == "setter" and any(on in ("SETATTR", "ALL") for on in inv_on):
                continue
            for exc in ("Exception", "KI", "SysExit", "GenExit"):
                for isasync in ([False, True] if members[0][0] == "method" else [False]):
                    for dbc in (True, False):
                        p = class_prog(inv_on, members, [(brk, 1), (2, 1), (brk, 1)], dbc=dbc, tag="break-raise")
                        p["fn"][brk]["out"] = [RaiseV(exc, 950)] * 3
                        p["fn"][brk]["async"] = isasync
                        yield p


def fam_cancel(tier: str, rng: random.Random) -> Iterator[dict]:
    """C11: cancellation / closing of an async call at each of its suspension points, then a probe."""
    aw = [Op("await", 0)]
    for variant in ("func", "method"):
        for kind in ("Cancelled", "GenExit", "Exception"):
            for n in range(1, 8):
                if variant == "func":
                    cons = [Con("pre", rv="corofn", script=aw), Con("pre", rv="coro", script=aw),
                            Con("post", rv="corofn", script=aw)]
                    fns = [Fn("func", 0, True, ["chk"], [[1, 2]], [1], [3], script=aw + aw)]
                    snps = [Snp(21, "corofn", aw)]
                    drv = [Op("call", 1, 0, 1), Op("call", 1, 0, 1)]
                    p = Prog(fns, cons, snps, [], [], [drv])
                else:
                    cons = [Con("inv", "default", False, INV_TRUTH), Con("pre", rv="corofn", script=aw)]
                    fns = [Fn("init", 1, False, ["init"], out=[RetV(0)] * 3, setst=1),
                           Fn("method", 1, True, ["inv", "chk"], [[2]], [], [], script=aw + aw)]
                    drv = [Op("call", 1, 1, 1), Op("call", 2, 1, 1), Op("call", 2, 1, 1)]
                    p = Prog(fns, cons, [], [Cls([1])], [{"cls": 1, "st0": 0}], [drv])
                p["fault"] = {"at": -1, "kind": kind, "n": n, "more": []}
                p["tag"] = "cancel-{}-{}-n{}".format(variant, kind, n)
                if kind in ("GenExit", "Exception"):
                    # the same, closed / interrupted from another flow of control (a fresh context)
                    q = json_copy(p)
                    q["foreign_resume"] = True
                    q["tag"] += "-foreign"
                    yield q
                yield p


def json_copy(x: Any) -> Any:
    import json as _json
    return _json.loads(_json.dumps(x))


# ------------------------------------------------------------------------------------------------------
def fam_conc(tier: str, rng: random.Random, isasync: bool = False) -> Iterator[dict]:
    """C12: concurrent calls of the same function / on the same object; context-inheritance modes.

    Task 1 optionally runs contracted code first (warm), then spawns tasks 2 and 3, each in a fresh context or
    in a copy of task 1's context.  f1(1) satisfies its precondition, f1(2) violates it.
    """
    aw = [Op("await", 0)] if isasync else []
    for warm in (False, True):
        for copy2 in (0, 1):
            for copy3 in (0, 1):
                for variant in ("func", "method"):
                    for calls3 in ([2], [2, 1]):
                        if variant == "func":
                            cons = [Con("pre", "default", False, [True, True, False]), Con("post")]
                            fns = [Fn("func", 0, isasync, ["chk"], [[1]], [], [2], script=aw)]
                            cls, obj = [], []
                            d1 = ([Op("call", 1, 0, 1)] if warm else []) + [Op("spawn", 2, 0, copy2), Op("spawn", 3, 0, copy3)]
                            d2 = [Op("call", 1, 0, 1)]
                            d3 = [Op("call", 1, 0, a) for a in calls3]
                        else:
                            # a shared object with an invariant (always true) and a method with a precondition
                            cons = [Con("inv", "default", False, [False, True, True]),
                                    Con("pre", "default", False, [True, True, False])]
                            fns = [Fn("init", 1, False, ["init"], out=[RetV(0)] * 3, setst=1),
                                   Fn("method", 1, isasync, ["inv", "chk"], [[2]], script=aw)]
                            cls, obj = [Cls([1])], [{"cls": 1, "st0": 0}]
                            if not warm:
                                continue  # the object has to be constructed by task 1 first
                            d1 = [Op("call", 1, 1, 1), Op("spawn", 2, 0, copy2), Op("spawn", 3, 0, copy3)]
                            d2 = [Op("call", 2, 1, 1)]
                            d3 = [Op("call", 2, 1, a) for a in calls3]
                        yield Prog(fns, cons, [], cls, obj, [d1, d2, d3], tag="conc-{}-{}".format(variant, "async" if isasync else "thread"))
    if not isasync:
        # two threads construct instances of the same class at the same time (__init__ / __new__ kind constructors): the
        # check of one construction says nothing about the other
        for kind in ("init", "new"):
            for copy2 in (0, 1):
                for copy3 in (0, 1):
                    # both constructors leave their object broken: both constructions must be refused, however the two
                    # checks interleave
                    cons = [Con("inv", "default", False, INV_TRUTH)]
                    out = [RetV(0)] * 3 if kind == "init" else [RetV(101)] * 3
                    fns = [Fn(kind, 1, False, [kind], out=out, setst=2)]
                    objs = [{"cls": 1, "st0": 0}, {"cls": 1, "st0": 0}]
                    d1 = [Op("spawn", 2, 0, copy2), Op("spawn", 3, 0, copy3)]
                    d2 = [Op("call", 1, 1, 1)]
                    d3 = [Op("call", 1, 2, 1)]
                    yield Prog(fns, cons, [], [Cls([1])], objs, [d1, d2, d3], tag="conc-ctor-" + kind)
        # loop-less worker threads running in copies of the context of an asyncio TASK that has run contracted code
        for calls3 in ([2], [2, 1], [1, 2]):
            for variant in ("func", "method"):
                if variant == "func":
                    cons = [Con("pre", "default", False, [True, True, False]), Con("post")]
                    fns = [Fn("func", 0, False, ["chk"], [[1]], [], [2])]
                    cls, obj = [], []
                    d1 = [Op("call", 1, 0, 1), Op("spawn", 2, 0, 1), Op("spawn", 3, 0, 1)]
                    d2 = [Op("call", 1, 0, 1)]
                    d3 = [Op("call", 1, 0, a) for a in calls3]
                else:
                    cons = [Con("inv", "default", False, [False, True, True]),
                            Con("pre", "default", False, [True, True, False])]
                    fns = [Fn("init", 1, False, ["init"], out=[RetV(0)] * 3, setst=1),
                           Fn("method", 1, False, ["inv", "chk"], [[2]])]
                    cls, obj = [Cls([1])], [{"cls": 1, "st0": 0}]
                    d1 = [Op("call", 1, 1, 1), Op("spawn", 2, 0, 1), Op("spawn", 3, 0, 1)]
                    d2 = [Op("call", 2, 1, 1)]
                    d3 = [Op("call", 2, 1, a) for a in calls3]
                p = Prog(fns, cons, [], cls, obj, [d1, d2, d3], tag="conc-workers-of-a-task-" + variant)
                p["parent_is_task"] = True
                yield p
    if isasync:
        # task 1 is the synchronous main program: it runs contracted sync code and creates the tasks before the event
        # loop starts (main_sync), or it is a task itself; the tasks then call an async function / async method
        for main_sync in (True, False):
            for copy2 in (0, 1):
                for copy3 in (0, 1):
                    for variant in ("func", "method", "method-mixed"):
                        for calls3 in ([2], [2, 1]):
                            if variant == "func":
                                cons = [Con("pre", "default", False, [True, True, False]), Con("post"), Con("pre")]
                                fns = [Fn("func", 0, True, ["chk"], [[1]], [], [2], script=aw),
                                       Fn("func", 0, False, ["chk"], [[3]], [], [])]
                                cls, obj = [], []
                                d1 = [Op("call", 2, 0, 1), Op("spawn", 2, 0, copy2), Op("spawn", 3, 0, copy3)]
                                d2 = [Op("call", 1, 0, 1)]
                                d3 = [Op("call", 1, 0, a) for a in calls3]
                            else:
                                cons = [Con("inv", "default", False, [False, True, True]),
                                        Con("pre", "default", False, [True, True, False])]
                                fns = [Fn("init", 1, False, ["init"], out=[RetV(0)] * 3, setst=1),
                                       Fn("method", 1, True, ["inv", "chk"], [[2]], script=aw),
                                       Fn("method", 1, False, ["inv"], setst=1)]
                                cls, obj = [Cls([1])], [{"cls": 1, "st0": 0}]
                                d1 = [Op("call", 1, 1, 1), Op("spawn", 2, 0, copy2), Op("spawn", 3, 0, copy3)]
                                d2 = [Op("call", 2, 1, 1)]
                                d3 = [Op("call", 2, 1, a) for a in calls3]
                                if variant == "method-mixed":
                                    # a sync public method of the same object while the async one is suspended
                                    d3 = [Op("call", 3, 1, 1)] + d3
                            p = Prog(fns, cons, [], cls, obj, [d1, d2, d3], tag="conc-mainsync-" + variant)
                            p["main_sync"] = main_sync
                            yield p
        # the parent is suspended inside an async public method of the object while a child (fresh / copied context)
        # calls a sync public method and the async method of the same object
        for copy2 in (0, 1):
            for d2 in ([Op("call", 3, 1, 1)], [Op("call", 3, 1, 1), Op("call", 2, 1, 1)], [Op("call", 2, 1, 2), Op("call", 3, 1, 1)]):
                cons = [Con("inv", "default", False, [False, True, True]),
                        Con("pre", "default", False, [True, True, False])]
                fns = [Fn("init", 1, False, ["init"], out=[RetV(0)] * 3, setst=1),
                       Fn("method", 1, True, ["inv", "chk"], [[2]], script=aw),
                       Fn("method", 1, False, ["inv"], setst=1)]
                d1 = [Op("call", 1, 1, 1), Op("spawn", 2, 0, copy2), Op("call", 2, 1, 1)]
                yield Prog(fns, cons, [], [Cls([1])], [{"cls": 1, "st0": 0}], [d1, [dict(o) for o in d2]],
                           tag="conc-parent-suspended")
    # a task created while its parent is evaluating contracts (inside a suspension window)
    for copy2 in (0, 1):
        # (the spawning operation is guarded by the argument: only task 1 calls f1(1), so a task never spawns itself)
        cons = [Con("pre", "default", False, [True, True, False], script=[Op("spawn", 2, 0, copy2, when=1)]), Con("post")]
        if isasync:
            cons[0]["rv"] = "corofn"
            cons[0]["script"] = [Op("spawn", 2, 0, copy2, when=1)] + aw
        fns = [Fn("func", 0, isasync, ["chk"], [[1]], [], [2], script=aw)]
        d1 = [Op("call", 1, 0, 1)]
        d2 = [Op("call", 1, 0, 2), Op("call", 1, 0, 0)]
        yield Prog(fns, cons, [], [], [], [d1, d2], tag="conc-spawn-in-window")


def fam_inv_async(tier: str, rng: random.Random) -> Iterator[dict]:
    """C03/C13: async public methods of a class with invariants, mixed with sync ones; operation sequences."""
    members = [("method", 0, True), ("method", 2, True), ("method", 1, True), ("protected", 2, False),
               ("method", 1, False), ("method", 0, False)]
    nm = len(members)
    seqs = [[m] for m in range(1, nm + 1)] + [[a, b] for a in range(1, nm + 1) for b in range(1, nm + 1)]
    tri = [[a, b, c] for a in range(1, nm + 1) for b in range(1, nm + 1) for c in range(1, nm + 1)]
    if tier != "thorough":
        rng.shuffle(tri)
        tri = tri[:80]
    for ops in seqs + tri:
        # (a SETATTR-only invariant next to one checked on calls: the async methods must select the same invariants
        #  as the sync ones - the state flips below leave it broken while the instance is marked)
        for inv_on in (["CALL"], ["ALL"], ["CALL", "SETATTR"], ["SETATTR", "CALL"]):
            if len(inv_on) == 2 and len(ops) == 3:
                continue
            p = class_prog(inv_on, [(k, st) for k, st, _ in members], [(m, 1) for m in ops], tag="inv-async")
            for i, (_, _, isasync) in enumerate(members):
                p["fn"][i + 1]["async"] = isasync
            yield p


def fam_reent_inst(tier: str, rng: random.Random) -> Iterator[dict]:
    """C10: invariants calling public methods of their object; methods calling methods of the same / another
    instance; a precondition of a method calling the method on the other instance."""
    SELF = -1
    inv_scripts = [[], [Op("call", 2, SELF, 1)], [Op("call", 2, SELF, 1), Op("call", 3, SELF, 1)], [Op("call", 3, 2, 1)]]
    body_scripts = [[], [Op("call", 3, SELF, 1)], [Op("call", 2, 2, 1, when=2)], [Op("call", 2, 2, 1, when=2), Op("call", 3, SELF, 1)]]
    pre_scripts = [[], [Op("call", 2, SELF, 1)], [Op("call", 2, 2, 1)], [Op("call", 3, SELF, 1), Op("call", 3, SELF, 1)]]
    for s_inv in inv_scripts:
        for s_b2 in body_scripts:
            for s_pre in pre_scripts:
                for isasync in ((False, True) if tier == "thorough" else (False,)):
                    cons = [Con("inv", "default", False, [False, True, True], script=s_inv),
                            Con("pre", "default", False, T3, script=s_pre)]
                    fns = [Fn("init", 1, False, ["init"], out=[RetV(0)] * 3, setst=1),
                           Fn("method", 1, False, ["inv", "chk"], [[2]], script=s_b2),
                           Fn("method", 1, False, ["inv"])]
                    obj = [{"cls": 1, "st0": 0}, {"cls": 1, "st0": 0}]
                    drv = [Op("call", 1, 2, 1), Op("call", 1, 1, 1), Op("call", 2, 1, 2), Op("call", 3, 1, 1)]
                    yield Prog(fns, cons, [], [Cls([1])], obj, [drv], tag="reent-inst")


# ------------------------------------------------------------------------------------------------------
def fam_async_placements(tier: str, rng: random.Random) -> Iterator[dict]:
    """C13: sync / coroutine-function / coroutine-returning / awaitable-returning conditions and captures on
    sync and async callables, for every role."""
    for owner_async in (False, True):
        for kind in ("func", "method"):
            for role in ("pre", "post"):
                for rv in ("bool", "corofn", "coro") + (("future", "futureraise") if owner_async else ()):
                    for truth in (True, False):
                        for form in ("default", "factory", "inst"):
                            if rv != "bool" and form == "default" and not truth and owner_async:
                                # documented: an async condition needs an explicit error (cannot be recomputed)
                                continue
                            p = member_prog(kind, False, [[1]] if role == "pre" else [], 1 if role == "post" else 0, 0,
                                            [truth], [truth], [form], False, owner_async, tag="async-cond")
                            assert p is not None
                            p["con"][0]["rv"] = rv
                            yield p
            if kind == "method":
                # an invariant condition that returns a coroutine object (it calls an `async def` helper): never awaited,
                # so it must be rejected - on sync and on async methods, and after the constructor - not taken as truthy
                for ctor_breaks in (False, True):
                    p = class_prog(["CALL"], [("method", 0), ("method", 2)], [(1, 1), (2, 1)], tag="async-inv-coro")
                    p["con"][0]["rv"] = "coro"
                    p["fn"][1]["async"] = owner_async
                    p["fn"][2]["async"] = owner_async
                    if ctor_breaks:
                        p["fn"][0]["setst"] = 2
                    yield p
            for rv in ("bool", "corofn", "coro"):
                p = member_prog(kind, False, [], 1, 1, [], [True], ["default"], False, owner_async, tag="async-cap")
                assert p is not None
                p["snp"][0]["rv"] = rv
                yield p
            # the captured VALUE is an awaitable object (a future to be remembered): it is not awaited by the capture
            for nsnap in (1, 2):
                p = member_prog(kind, False, [], 1, nsnap, [], [True], ["default"], False, owner_async, tag="async-cap-avalue")
                assert p is not None
                p["snp"][0]["rv"] = "avalue"
                yield p
            # two or three snapshots of different flavours: they are captured in the order of their declaration
            for rvs in itertools.product(("bool", "corofn", "coro"), repeat=2):
                if not owner_async and "corofn" in rvs:
                    continue
                p = member_prog(kind, False, [], 1, 2, [], [True], ["default"], False, owner_async, tag="async-cap2")
                assert p is not None
                for snp, rv in zip(p["snp"], rvs):
                    snp["rv"] = rv
                yield p


def async_twin(p: dict) -> Optional[dict]:
    """The same program with every eligible callable rendered as `async def`."""
    q = json_copy(p)
    changed = False
    for fn in q["fn"]:
        if fn["kind"] in ("func", "method", "static", "class") and not fn["async"]:
            fn["async"] = True
            changed = True
    for c in q["con"]:
        if c["lam"]:
            return None
    return q if changed else None


def fam_reent_async(tier: str, rng: random.Random) -> Iterator[dict]:
    """C10/C13/C14: async public methods of an object with invariants awaiting other public methods of the same
    object (re-entrant for the instance) and of another one; the results must come back as values."""
    SELF = -1
    bodies = [[Op("call", 3, SELF, 1)], [Op("call", 3, SELF, 1), Op("call", 4, SELF, 1)], [Op("call", 3, 2, 1)],
              [Op("call", 4, SELF, 1, when=2)], []]
    for s2 in bodies:
        for s3 in ([], [Op("call", 4, SELF, 1)]):
            for async3 in (True, False):
                for with_pre, with_post in ((False, False), (True, False), (False, True)):
                    cons = [Con("inv", "default", False, [False, True, True])]
                    pre = []
                    post3 = []
                    if with_pre:
                        cons.append(Con("pre", "default", False, T3, rv="corofn", script=[Op("call", 3, SELF, 1)]))
                        pre = [[2]]
                    if with_post:
                        # the awaited method has a postcondition of its own (violated for argument 1 in half of the programs)
                        cons.append(Con("post", "default", False, [True, bool(len(s2) % 2), True]))
                        post3 = [len(cons)]
                    fns = [Fn("init", 1, False, ["init"], out=[RetV(0)] * 3, setst=1),
                           Fn("method", 1, True, ["inv"] + (["chk"] if pre else []), pre, script=s2),
                           Fn("method", 1, async3, ["inv"] + (["chk"] if post3 else []), [], [], post3,
                              script=s3 if async3 else []),
                           Fn("method", 1, True, ["inv"])]
                    obj = [{"cls": 1, "st0": 0}, {"cls": 1, "st0": 0}]
                    drv = [Op("call", 1, 2, 1), Op("call", 1, 1, 1), Op("call", 2, 1, 2), Op("call", 2, 1, 1), Op("call", 3, 1, 1)]
                    yield Prog(fns, cons, [], [Cls([1])], obj, [drv], tag="reent-async")
