"""Imports every module that registers checks; texts for the manifest of checks defined outside registry.py."""
TEXT = {}
NOT_APPLICABLE = {}
